// Package negotiation is the component driver for C17: every operation generated from
// spec/Negotiation.tla (a grid point of negotiation parameters, or one corruption operator
// applied to a carrier form) is pushed through the real Validate, MarshalKeyValues /
// UnmarshalKeyValues, the websocket and webtransport URL value codecs, the QUIC binary
// codec and CompressConfig with two different bases; the real outputs are logged as one
// NegOp event per operation, which spec/MonC17.tla compares with the model's.
package negotiation

import (
	"encoding/binary"
	"fmt"
	"net/url"
	"sort"

	"github.com/aptpod/iscp-go/transport"
	"github.com/aptpod/iscp-go/transport/compress"
	tquic "github.com/aptpod/iscp-go/transport/quic"
	tws "github.com/aptpod/iscp-go/transport/websocket"
	twt "github.com/aptpod/iscp-go/transport/webtransport"

	"verifharness/h"
)

func init() { h.Kinds["negotiation"] = run }

// the two acceptor/dialer bases of the model (BaseA, BaseB in NegotiationCore.tla)
var (
	baseA = compress.Config{Enable: false, Level: 1, DisableContextTakeover: false, WindowBits: 9}
	baseB = compress.Config{Enable: true, Level: 8, DisableContextTakeover: true, WindowBits: 14}
)

var keyOrder = []string{"enc", "comp", "clevel", "cwinbits", "tid", "reconnect", "tgid", "tgcount", "tgidx"}

func keyRank(k string) int {
	for i, x := range keyOrder {
		if x == k {
			return i
		}
	}
	return len(keyOrder)
}

func sortKeys(ks []string) {
	sort.Slice(ks, func(i, j int) bool {
		ri, rj := keyRank(ks[i]), keyRank(ks[j])
		if ri != rj {
			return ri < rj
		}
		return ks[i] < ks[j]
	})
}

// ---- decoding of the scripted operation (Step.Match is free-form JSON)

func str(m map[string]any, k string) string { s, _ := m[k].(string); return s }
func num(m map[string]any, k string) int    { f, _ := m[k].(float64); return int(f) }
func boolean(m map[string]any, k string) bool {
	b, _ := m[k].(bool)
	return b
}

func optInt(m map[string]any, k string) *int {
	l, _ := m[k].([]any)
	if len(l) == 0 {
		return nil
	}
	f, _ := l[0].(float64)
	v := int(f)
	return &v
}

func paramsOf(m map[string]any) transport.NegotiationParams {
	return transport.NegotiationParams{
		Encoding:                 transport.EncodingName(str(m, "enc")),
		Compress:                 compress.Type(str(m, "comp")),
		CompressLevel:            optInt(m, "lvl"),
		CompressWindowBits:       optInt(m, "win"),
		TransportID:              transport.TransportID(str(m, "tid")),
		Reconnect:                boolean(m, "rc"),
		TransportGroupID:         transport.TransportGroupID(str(m, "tgid")),
		TransportGroupTotalCount: num(m, "tgcount"),
		TransportGroupIndex:      num(m, "tgidx"),
	}
}

func pairsOf(m map[string]any) [][2]string {
	out := [][2]string{}
	l, _ := m["pairs"].([]any)
	for _, x := range l {
		p, _ := x.([]any)
		if len(p) == 2 {
			k, _ := p[0].(string)
			v, _ := p[1].(string)
			out = append(out, [2]string{k, v})
		}
	}
	return out
}

// ---- projections of real values (no nulls, no floats)

func clone(p transport.NegotiationParams) transport.NegotiationParams {
	q := p
	if p.CompressLevel != nil {
		v := *p.CompressLevel
		q.CompressLevel = &v
	}
	if p.CompressWindowBits != nil {
		v := *p.CompressWindowBits
		q.CompressWindowBits = &v
	}
	return q
}

func optEv(p *int) []int {
	if p == nil {
		return []int{}
	}
	return []int{*p}
}

func pEv(p transport.NegotiationParams) h.Ev {
	return h.Ev{"enc": string(p.Encoding), "comp": string(p.Compress), "lvl": optEv(p.CompressLevel), "win": optEv(p.CompressWindowBits),
		"rc": p.Reconnect, "tid": string(p.TransportID), "tgid": string(p.TransportGroupID),
		"tgcount": p.TransportGroupTotalCount, "tgidx": p.TransportGroupIndex}
}

func cfgEv(c compress.Config) h.Ev {
	return h.Ev{"enable": c.Enable, "level": c.Level, "dct": c.DisableContextTakeover, "win": c.WindowBits}
}

func resEv(ok bool, p transport.NegotiationParams) h.Ev { return h.Ev{"ok": ok, "p": pEv(p)} }

func kvEv(kv map[string]string) [][]string {
	ks := make([]string, 0, len(kv))
	for k := range kv {
		ks = append(ks, k)
	}
	sortKeys(ks)
	out := make([][]string, 0, len(ks))
	for _, k := range ks {
		out = append(out, []string{k, kv[k]})
	}
	return out
}

func urlEv(u url.Values) []any {
	ks := make([]string, 0, len(u))
	for k := range u {
		ks = append(ks, k)
	}
	sortKeys(ks)
	out := make([]any, 0, len(ks))
	for _, k := range ks {
		out = append(out, []any{k, append([]string{}, u[k]...)})
	}
	return out
}

// ---- QUIC binary form helpers (independent of the code under test)

func encodePair(k, v []byte, klen, vlen int) []byte {
	b := make([]byte, 0, 4+len(k)+len(v))
	var l [2]byte
	binary.BigEndian.PutUint16(l[:], uint16(klen))
	b = append(b, l[:]...)
	b = append(b, k...)
	binary.BigEndian.PutUint16(l[:], uint16(vlen))
	b = append(b, l[:]...)
	b = append(b, v...)
	return b
}

func encodePairs(ps [][2]string) []byte {
	b := []byte{}
	for _, p := range ps {
		b = append(b, encodePair([]byte(p[0]), []byte(p[1]), len(p[0]), len(p[1]))...)
	}
	return b
}

// decodeWire parses the bytes produced by the real Marshal: pairs in wire order, well-formed?
func decodeWire(b []byte) (map[string]string, bool) {
	kv := map[string]string{}
	for len(b) > 0 {
		if len(b) < 2 {
			return kv, false
		}
		kl := int(binary.BigEndian.Uint16(b))
		b = b[2:]
		if kl == 0 || len(b) < kl+2 {
			return kv, false
		}
		k := string(b[:kl])
		b = b[kl:]
		vl := int(binary.BigEndian.Uint16(b))
		b = b[2:]
		if len(b) < vl {
			return kv, false
		}
		v := string(b[:vl])
		b = b[vl:]
		if _, dup := kv[k]; dup {
			return kv, false
		}
		kv[k] = v
	}
	return kv, true
}

// guard runs f and reports a panic as its name
func guard(where string, crashed *[]string, f func()) {
	defer func() {
		if r := recover(); r != nil {
			*crashed = append(*crashed, fmt.Sprintf("%s: %v", where, r))
		}
	}()
	f()
}

func runGrid(rec *h.Rec, m map[string]any) {
	p := paramsOf(m)
	crashed := []string{}
	ev := []any{"a", "grid", "match", pEv(p)}

	// what a dialer configured with these values announces (only for sets naming type, level and window:
	// DialConfig cannot express the others)
	dial := clone(p)
	if (p.Compress == compress.TypePerMessage || p.Compress == compress.TypeContextTakeOver) && p.CompressLevel != nil && p.CompressWindowBits != nil {
		guard("DialConfig.NegotiationParams", &crashed, func() {
			dc := transport.DialConfig{
				Address:        "example.test:1",
				CompressConfig: compress.Config{Enable: baseB.Enable, Level: *p.CompressLevel, DisableContextTakeover: p.Compress == compress.TypePerMessage, WindowBits: *p.CompressWindowBits},
				EncodingName:   p.Encoding, TransportID: p.TransportID, Reconnect: p.Reconnect,
				TransportGroupID: p.TransportGroupID, TransportGroupTotalCount: p.TransportGroupTotalCount, TransportGroupIndex: p.TransportGroupIndex,
			}
			dial = dc.NegotiationParams()
		})
	}
	ev = append(ev, "dial", pEv(dial))

	// Validate (on a copy: it fills in the default level)
	vp := clone(p)
	vok := false
	guard("Validate", &crashed, func() { vok = vp.Validate() == nil })
	ev = append(ev, "vok", vok, "vp", pEv(vp))

	// key/value map
	var kv map[string]string
	kvok := false
	guard("MarshalKeyValues", &crashed, func() {
		q := clone(p)
		var err error
		kv, err = q.MarshalKeyValues()
		kvok = err == nil
	})
	var kvq transport.NegotiationParams
	kvrtok := false
	guard("UnmarshalKeyValues", &crashed, func() { kvrtok = kvok && kvq.UnmarshalKeyValues(kv) == nil })
	ev = append(ev, "kvok", kvok, "kv", kvEv(kv), "kvrt", resEv(kvrtok, kvq))

	// URL values: websocket and webtransport, directly and through the query string as the dialers send it
	var wsu, wtu url.Values
	wsok, wtok := false, false
	var wsq, wsqq tws.NegotiationParams
	var wtq, wtqq twt.NegotiationParams
	wsrtok, wsqrtok, wtrtok, wtqrtok := false, false, false, false
	guard("websocket.MarshalURLValues", &crashed, func() {
		q := tws.NegotiationParams{NegotiationParams: clone(p)}
		var err error
		wsu, err = q.MarshalURLValues()
		wsok = err == nil
	})
	guard("websocket.UnmarshalURLValues", &crashed, func() {
		wsrtok = wsok && wsq.UnmarshalURLValues(wsu) == nil
		if wsok {
			parsed, err := url.ParseQuery(wsu.Encode())
			wsqrtok = err == nil && wsqq.UnmarshalURLValues(parsed) == nil
		}
	})
	guard("webtransport.MarshalURLValues", &crashed, func() {
		q := twt.NegotiationParams{NegotiationParams: clone(p)}
		var err error
		wtu, err = q.MarshalURLValues()
		wtok = err == nil
	})
	guard("webtransport.UnmarshalURLValues", &crashed, func() {
		wtrtok = wtok && wtq.UnmarshalURLValues(wtu) == nil
		if wtok {
			parsed, err := url.ParseQuery(wtu.Encode())
			wtqrtok = err == nil && wtqq.UnmarshalURLValues(parsed) == nil
		}
	})
	ev = append(ev, "wsurl", urlEv(wsu), "wturl", urlEv(wtu),
		"urlrt", []any{resEv(wsrtok, wsq.NegotiationParams), resEv(wsqrtok, wsqq.NegotiationParams),
			resEv(wtrtok, wtq.NegotiationParams), resEv(wtqrtok, wtqq.NegotiationParams)})

	// QUIC binary form
	var qb []byte
	qok := false
	guard("quic.Marshal", &crashed, func() {
		q := tquic.NegotiationParams{NegotiationParams: clone(p)}
		var err error
		qb, err = q.Marshal()
		qok = err == nil
	})
	wire, wf := decodeWire(qb)
	var qq tquic.NegotiationParams
	qrtok := false
	guard("quic.Unmarshal", &crashed, func() { qrtok = qok && qq.Unmarshal(qb) == nil })
	ev = append(ev, "qok", qok, "qwf", wf, "qlen", len(qb), "qkv", kvEv(wire), "qrt", resEv(qrtok, qq.NegotiationParams))

	// CompressConfig of the validated set with two different bases
	var cA, cB, cC compress.Config
	guard("CompressConfig", &crashed, func() {
		cA = vp.CompressConfig(baseA)
		cB = vp.CompressConfig(baseB)
		raw := clone(p)
		cC = raw.CompressConfig(baseA) // the dialing side derives from the set it sends, without Validate
	})
	ev = append(ev, "cfgA", cfgEv(cA), "cfgB", cfgEv(cB), "peerC", cfgEv(cC))

	// the accepting side: unmarshal from the carrier, Validate, derive from its own base
	peers := []any{}
	for _, c := range []struct {
		name string
		ok   bool
		q    transport.NegotiationParams
	}{{"kv", kvrtok, kvq}, {"ws", wsrtok, wsq.NegotiationParams}, {"wsquery", wsqrtok, wsqq.NegotiationParams},
		{"wt", wtrtok, wtq.NegotiationParams}, {"wtquery", wtqrtok, wtqq.NegotiationParams}, {"quic", qrtok, qq.NegotiationParams}} {
		ok := c.ok
		var cfg compress.Config
		guard("acceptor/"+c.name, &crashed, func() {
			q := clone(c.q)
			if ok && q.Validate() != nil {
				ok = false
			}
			cfg = q.CompressConfig(baseB)
		})
		peers = append(peers, h.Ev{"carrier": c.name, "ok": ok, "cfg": cfgEv(cfg)})
	}
	ev = append(ev, "peerS", peers)

	ret := "ok"
	if len(crashed) > 0 {
		ret = "panic"
	}
	ev = append(ev, "ret", ret, "crashed", append([]string{}, crashed...))
	rec.Log("NegOp", ev...)
}

// corruptQuic builds the byte string the model operator QuicCorrupt describes.
func corruptQuic(ps [][2]string, kind string, idx, off int) ([]byte, bool) {
	n := len(ps)
	at := func(i int) bool { return i >= 1 && i <= n }
	whole := encodePairs(ps)
	switch kind {
	case "truncate":
		if off < 0 || off > len(whole) {
			return nil, false
		}
		return whole[:off], true
	case "zerokey":
		if idx < 1 || idx > n+1 {
			return nil, false
		}
		b := encodePairs(ps[:idx-1])
		b = append(b, encodePair(nil, []byte("x"), 0, 1)...)
		return append(b, encodePairs(ps[idx-1:])...), true
	case "dupkey", "dupkeyx":
		if !at(idx) {
			return nil, false
		}
		v := ps[idx-1][1]
		if kind == "dupkeyx" {
			v = "x"
		}
		return append(whole, encodePairs([][2]string{{ps[idx-1][0], v}})...), true
	case "dupkeyempty":
		if !at(idx) {
			return nil, false
		}
		return append(whole, encodePair([]byte(ps[idx-1][0]), nil, len(ps[idx-1][0]), 0)...), true
	case "emptyfirst":
		if !at(idx) {
			return nil, false
		}
		b := encodePairs(ps[:idx-1])
		b = append(b, encodePair([]byte(ps[idx-1][0]), nil, len(ps[idx-1][0]), 0)...)
		return append(b, encodePairs(ps[idx-1:])...), true
	case "emptyval":
		if !at(idx) {
			return nil, false
		}
		b := encodePairs(ps[:idx-1])
		b = append(b, encodePair([]byte(ps[idx-1][0]), nil, len(ps[idx-1][0]), 0)...)
		return append(b, encodePairs(ps[idx:])...), true
	case "badutf8k", "badutf8v", "lenoverk", "lenoverv":
		if !at(idx) || len(ps[idx-1][0]) == 0 || len(ps[idx-1][1]) == 0 {
			return nil, false
		}
		b := encodePairs(ps[:idx-1])
		k, v := []byte(ps[idx-1][0]), []byte(ps[idx-1][1])
		rest := encodePairs(ps[idx:])
		kl, vl := len(k), len(v)
		switch kind {
		case "badutf8k":
			k[0] = 0xff
		case "badutf8v":
			v[0] = 0xff
		case "lenoverk":
			kl = len(k) + 2 + len(v) + len(rest) + 1 // everything after the key length field, plus one
		case "lenoverv":
			vl = len(v) + len(rest) + 1
		}
		if kl > 0xffff || vl > 0xffff {
			return nil, false
		}
		b = append(b, encodePair(k, v, kl, vl)...)
		return append(b, rest...), true
	}
	return nil, false
}

func corruptURL(ps [][2]string, kind string, idx int) (url.Values, bool) {
	n := len(ps)
	u := url.Values{}
	for _, p := range ps {
		u[p[0]] = []string{p[1]}
	}
	switch kind {
	case "zerokey":
		if idx < 1 || idx > n+1 {
			return nil, false
		}
		u[""] = []string{"x"}
	case "dupkey", "dupkeyx", "noval", "strictutf8v":
		if idx < 1 || idx > n {
			return nil, false
		}
		k, v := ps[idx-1][0], ps[idx-1][1]
		switch kind {
		case "dupkey":
			u[k] = []string{v, v}
		case "dupkeyx":
			u[k] = []string{v, "x"}
		case "noval":
			u[k] = []string{}
		case "strictutf8v":
			if len(v) == 0 {
				return nil, false
			}
			u[k] = []string{"\xff" + v[1:]}
		}
	default:
		return nil, false
	}
	return u, true
}

func corruptKV(ps [][2]string, kind string, idx int) (map[string]string, bool) {
	n := len(ps)
	kv := map[string]string{}
	for _, p := range ps {
		kv[p[0]] = p[1]
	}
	if kind == "strictzerokey" {
		if idx < 1 || idx > n+1 {
			return nil, false
		}
		kv[""] = "x"
		return kv, true
	}
	if idx < 1 || idx > n {
		return nil, false
	}
	k, v := ps[idx-1][0], ps[idx-1][1]
	switch kind {
	case "badnum":
		kv[k] = "x"
	case "emptynum":
		kv[k] = ""
	case "fracnum":
		kv[k] = v + ".5"
	case "badbool":
		kv[k] = "yes"
	case "strictutf8v":
		if len(v) == 0 {
			return nil, false
		}
		kv[k] = "\xff" + v[1:]
	default:
		return nil, false
	}
	return kv, true
}

func runCorrupt(rec *h.Rec, m map[string]any) {
	carrier, kind := str(m, "carrier"), str(m, "kind")
	ps := pairsOf(m)
	idx, off := num(m, "idx"), num(m, "off")
	pairsEv := make([][]string, 0, len(ps))
	for _, p := range ps {
		pairsEv = append(pairsEv, []string{p[0], p[1]})
	}
	echo := h.Ev{"carrier": carrier, "kind": kind, "pairs": pairsEv, "idx": idx, "off": off}
	crashed := []string{}
	res := []any{}
	blen := -1
	switch carrier {
	case "quic":
		b, ok := corruptQuic(ps, kind, idx, off)
		if !ok {
			rec.Log("Inconclusive", "why", "corruption operator not applicable: "+kind)
			return
		}
		blen = len(b)
		var q tquic.NegotiationParams
		accepted := false
		guard("quic.Unmarshal", &crashed, func() { accepted = q.Unmarshal(b) == nil })
		res = append(res, resEv(accepted, q.NegotiationParams))
	case "url":
		u, ok := corruptURL(ps, kind, idx)
		if !ok {
			rec.Log("Inconclusive", "why", "corruption operator not applicable: "+kind)
			return
		}
		var q1 tws.NegotiationParams
		var q2 twt.NegotiationParams
		a1, a2 := false, false
		guard("websocket.UnmarshalURLValues", &crashed, func() { a1 = q1.UnmarshalURLValues(u) == nil })
		guard("webtransport.UnmarshalURLValues", &crashed, func() { a2 = q2.UnmarshalURLValues(u) == nil })
		res = append(res, resEv(a1, q1.NegotiationParams), resEv(a2, q2.NegotiationParams))
	case "kv":
		kv, ok := corruptKV(ps, kind, idx)
		if !ok {
			rec.Log("Inconclusive", "why", "corruption operator not applicable: "+kind)
			return
		}
		var q transport.NegotiationParams
		accepted := false
		guard("UnmarshalKeyValues", &crashed, func() { accepted = q.UnmarshalKeyValues(kv) == nil })
		res = append(res, resEv(accepted, q))
	default:
		rec.Log("Inconclusive", "why", "unknown carrier "+carrier)
		return
	}
	ret := "ok"
	if len(crashed) > 0 {
		ret = "panic"
	}
	rec.Log("NegOp", "a", "corrupt", "match", echo, "res", res, "blen", blen, "ret", ret, "crashed", append([]string{}, crashed...))
}

func run(sc *h.Scenario) *h.Rec {
	rec := h.NewRec(sc.ID)
	rec.Log("Reset", "kind", sc.Kind, "p", h.Ev{"baseA": cfgEv(baseA), "baseB": cfgEv(baseB)})
	for _, st := range sc.Steps {
		switch st.A {
		case "grid":
			runGrid(rec, st.Match)
		case "corrupt":
			runCorrupt(rec, st.Match)
		default:
			rec.Log("Inconclusive", "why", "unknown op "+st.A)
		}
	}
	rec.Log("End")
	return rec
}
