// Package multi is the component driver for C19 (transport/multi): it replays environment
// scripts generated from spec/MultiTransport.tla on a real multi.Transport built over scripted
// member transports and records one event per operation for the monitor spec/MonC19.tla.
//
// Scenario parameters (sc.P): members []string, init string, wait bool,
// mode: event | nic | poll | rr | lastused | polldefault | lastused-unattached, rr []string (ids of the
// RoundRobinPoller in mode rr).
// renew = a second transport generation built from the same configuration objects (same scheduler instance).
// Steps: select{id} | write{n} | writeBegin{n} | writeEnd | memberRead{src,n} | read | close | counters | asUnreliable |
// negotiationParams.  writeBegin starts a Write that stays in flight inside the member it was routed to (the member applies
// back-pressure) until writeEnd lets it return; selections issued in between queue up behind the write.
package multi

import (
	"context"
	stderrors "errors"
	"fmt"
	"sort"
	"sync"
	"time"

	"github.com/aptpod/iscp-go/transport"
	tmulti "github.com/aptpod/iscp-go/transport/multi"

	"verifharness/h"
)

func init() {
	h.Kinds["multi"] = run
}

const (
	opTimeout     = 5 * time.Second        // an operation that must complete promptly (hand-over to a library goroutine)
	seenTimeout   = 1 * time.Second        // wait for a member selection to become visible
	unknownWindow = 30 * time.Millisecond  // observation window after a selection that must be ignored
	probeEvery    = 100 * time.Microsecond // polling period of the observation
)

// ---------------------------------------------------------------- scripted member transport

type feedReq struct {
	bs  []byte
	ack chan struct{}
}

type member struct {
	id     string
	idx    int
	total  int
	mu     sync.Mutex
	writes [][]byte
	closes int
	tx, rx uint64
	feed   chan feedReq
	failc  chan struct{} // the pending Read fails with a connection error (step memberFail)
	closed chan struct{}
	gate   *wgate
	cerr   bool   // Close reports an error (after closing)
	badGrp string // "gid": empty transport group id; "count": wrong group total (the configuration must be refused)
}

// wgate makes the next Write of any member block inside the member until it is released.
type wgate struct {
	mu      sync.Mutex
	armed   bool
	entered chan string
	release chan struct{}
}

func (g *wgate) arm() {
	g.mu.Lock()
	defer g.mu.Unlock()
	g.armed, g.entered, g.release = true, make(chan string, 1), make(chan struct{})
}

func (g *wgate) take() (chan string, chan struct{}, bool) {
	g.mu.Lock()
	defer g.mu.Unlock()
	if !g.armed {
		return nil, nil, false
	}
	g.armed = false
	return g.entered, g.release, true
}

func newMember(id string, idx, total int) *member {
	return &member{id: id, idx: idx, total: total, feed: make(chan feedReq), failc: make(chan struct{}), closed: make(chan struct{})}
}

func (m *member) Read() ([]byte, error) {
	select {
	case r := <-m.feed:
		m.mu.Lock()
		m.rx += uint64(len(r.bs))
		m.mu.Unlock()
		close(r.ack)
		return r.bs, nil
	case <-m.failc:
		return nil, stderrors.New("read: connection reset by peer")
	case <-m.closed:
		return nil, transport.ErrAlreadyClosed
	}
}

func (m *member) Write(bs []byte) error {
	if m.gate != nil {
		if entered, release, ok := m.gate.take(); ok {
			m.mu.Lock()
			m.writes = append(m.writes, append([]byte(nil), bs...))
			m.tx += uint64(len(bs))
			m.mu.Unlock()
			entered <- m.id
			<-release
			return nil
		}
	}
	m.mu.Lock()
	defer m.mu.Unlock()
	if m.closes > 0 {
		return transport.ErrAlreadyClosed
	}
	m.writes = append(m.writes, append([]byte(nil), bs...))
	m.tx += uint64(len(bs))
	return nil
}

func (m *member) Close() error {
	m.mu.Lock()
	defer m.mu.Unlock()
	m.closes++
	if m.closes == 1 {
		close(m.closed)
	}
	if m.cerr {
		return fmt.Errorf("member %s: broken pipe", m.id)
	}
	return nil
}

func (m *member) RxBytesCounterValue() uint64 {
	m.mu.Lock()
	defer m.mu.Unlock()
	return m.rx
}

func (m *member) TxBytesCounterValue() uint64 {
	m.mu.Lock()
	defer m.mu.Unlock()
	return m.tx
}

func (m *member) AsUnreliable() (transport.UnreliableTransport, bool) { return &unrel{m}, true }

func (m *member) NegotiationParams() transport.NegotiationParams {
	if m.badGrp == "gid" {
		return transport.NegotiationParams{TransportID: transport.TransportID(m.id), TransportGroupTotalCount: m.total, TransportGroupIndex: m.idx}
	}
	if m.badGrp == "count" {
		return transport.NegotiationParams{TransportID: transport.TransportID(m.id), TransportGroupID: "g", TransportGroupTotalCount: m.total + 1, TransportGroupIndex: m.idx}
	}
	return transport.NegotiationParams{
		TransportID:              transport.TransportID(m.id),
		TransportGroupID:         "g",
		TransportGroupTotalCount: m.total,
		TransportGroupIndex:      m.idx,
	}
}

func (m *member) Name() transport.Name { return transport.Name("fake-" + m.id) }

type unrel struct{ *member }

func (*unrel) IsUnreliable() {}

// closerMember additionally implements transport.Closer (the other branch of CloseWithStatus).
type closerMember struct{ *member }

func (c closerMember) CloseWithStatus(transport.CloseStatus) error { return c.member.Close() }

// ---------------------------------------------------------------- gated pollers

type pollReq struct {
	id    string
	done  chan string
	flush bool // release a Get that a closed transport generation is still blocked in (the gate is an artefact of the harness)
}

// gatePoller makes every Get of the PollingScheduler wait for a `select` step of the script, so that
// the trace contains exactly one event per id the scheduler emitted. With inner == nil the id is the
// scripted one, otherwise the real poller (RoundRobinPoller / LastUsedPoller) decides.
type gatePoller struct {
	inner tmulti.Poller
	req   chan pollReq
	stop  chan struct{}
	mu    sync.Mutex
	last  transport.TransportID
}

func (p *gatePoller) Get() transport.TransportID {
	select {
	case r := <-p.req:
		if r.flush {
			p.mu.Lock()
			defer p.mu.Unlock()
			return p.last
		}
		id := transport.TransportID(r.id)
		if p.inner != nil {
			id = p.inner.Get()
		}
		p.mu.Lock()
		p.last = id
		p.mu.Unlock()
		r.done <- string(id)
		return id
	case <-p.stop:
		p.mu.Lock()
		defer p.mu.Unlock()
		return p.last
	}
}

func (p *gatePoller) SetMultiTransport(t *tmulti.Transport) {
	if s, ok := p.inner.(tmulti.MultiTransportSetter); ok {
		s.SetMultiTransport(t)
	}
}

type fakeNIC struct{ c chan string }

func (f fakeNIC) Subscribe() <-chan string { return f.c }

// ---------------------------------------------------------------- helpers

func strs(v any) []string {
	out := []string{}
	if l, ok := v.([]any); ok {
		for _, x := range l {
			if s, ok := x.(string); ok {
				out = append(out, s)
			}
		}
	}
	return out
}

// guard runs f and reports a recovered panic.
func guard(f func()) (panicked bool) {
	defer func() {
		if r := recover(); r != nil {
			panicked = true
		}
	}()
	f()
	return false
}

func wPayload(k int) []byte {
	b := make([]byte, 1<<(k-1))
	b[0] = byte(k)
	return b
}

func rPayload(k int) []byte {
	b := make([]byte, 8<<(k-1))
	b[0] = byte(100 + k)
	return b
}

type readRes struct {
	ret string
	k   int
}

// ---------------------------------------------------------------- runner

func run(sc *h.Scenario) *h.Rec {
	rec := h.NewRec(sc.ID)
	ids := strs(sc.P["members"])
	sort.Strings(ids)
	initID, _ := sc.P["init"].(string)
	mode, _ := sc.P["mode"].(string)
	wait, _ := sc.P["wait"].(bool)
	holdMs := 2 // how long a held write stays inside the member after the script's last step before writeEnd
	if v, ok := sc.P["holdMs"].(float64); ok && v > 0 {
		holdMs = int(v)
	}
	rr := strs(sc.P["rr"])
	cerr := strs(sc.P["closeErr"])
	sort.Strings(cerr)
	badCfg, _ := sc.P["badCfg"].(string) // "", "gid", "count" (the last member is the faulty one), "empty" (no members)
	rec.Log("Reset", "kind", sc.Kind, "p", h.Ev{"members": ids, "init": initID, "mode": mode, "wait": wait, "closeErr": cerr, "badCfg": badCfg})
	defer rec.Log("End")

	if mode == "lastused-unattached" {
		// a LastUsedPoller that was never attached to a transport (e.g. wrapped by a user-defined Poller)
		ret := ""
		if guard(func() { ret = string(tmulti.NewLastReadPoller().Get()) }) {
			ret = "panic"
		}
		rec.Log("MtOp", "a", "pollerGet", "ret", ret)
		return rec
	}

	isMember := map[string]bool{}
	members := map[string]*member{}
	tm := tmulti.TransportMap{}
	gate := &wgate{}
	mkMembers := func() {
		members = map[string]*member{}
		tm = tmulti.TransportMap{}
		for i, id := range ids {
			m := newMember(id, i, len(ids))
			m.gate = gate
			if i == len(ids)-1 && (badCfg == "gid" || badCfg == "count") {
				m.badGrp = badCfg
			}
			for _, x := range cerr {
				if x == id {
					m.cerr = true
				}
			}
			members[id] = m
			isMember[id] = true
			if i%2 == 1 {
				tm[transport.TransportID(id)] = closerMember{m}
			} else {
				tm[transport.TransportID(id)] = m
			}
		}
	}
	mkMembers()
	cfg := tmulti.TransportConfig{TransportMap: tm, InitialTransportID: transport.TransportID(initID)}
	evCh := make(chan transport.TransportID)
	nicCh := make(chan string)
	var gp *gatePoller
	switch mode {
	case "event":
		cfg.SchedulerMode = tmulti.SchedulerModeEvent
		cfg.EventScheduler = &tmulti.EventScheduler{Subscriber: tmulti.EventSchedulerFunc(func(context.Context) <-chan transport.TransportID { return evCh })}
	case "nic":
		nm := map[string]transport.TransportID{"nic-zz": "zz"}
		for _, id := range []string{"m1", "m2", "m3"} {
			nm["nic-"+id] = transport.TransportID(id)
		}
		cfg.SchedulerMode = tmulti.SchedulerModeEvent
		cfg.EventScheduler = &tmulti.EventScheduler{Subscriber: &tmulti.NICEventSubscriber{NICManager: fakeNIC{nicCh}, NICTransportID: nm}}
	case "poll", "rr", "lastused":
		gp = &gatePoller{req: make(chan pollReq), stop: make(chan struct{}), last: transport.TransportID(initID)}
		switch mode {
		case "rr":
			l := []transport.TransportID{}
			for _, s := range rr {
				l = append(l, transport.TransportID(s))
			}
			gp.inner = tmulti.NewRoundRobinPoller(l)
		case "lastused":
			gp.inner = tmulti.NewLastReadPoller()
		}
		cfg.SchedulerMode = tmulti.SchedulerModePolling
		cfg.PollingScheduler = &tmulti.PollingScheduler{Poller: gp, Interval: time.Millisecond}
	case "polldefault":
		cfg.SchedulerMode = tmulti.SchedulerModePolling
	default:
		rec.Log("Inconclusive", "why", "unknown mode "+mode)
		return rec
	}

	var mt *tmulti.Transport
	var err error
	if guard(func() { mt, err = tmulti.NewTransport(cfg) }) {
		rec.Log("MtOp", "a", "new", "ret", "panic")
		return rec
	}
	if err != nil {
		rec.Log("MtOp", "a", "new", "ret", "error")
		return rec
	}
	rec.Log("MtOp", "a", "new", "ret", "ok")

	closed := false
	var pendingRead chan readRes
	var heldRet chan string // result of the Write that is in flight
	var heldRelease chan struct{}
	heldSel := "" // last member id selected while the write was in flight
	defer func() {
		cleanup := "ok"
		if heldRelease != nil {
			close(heldRelease)
		}
		if !closed {
			if guard(func() { mt.Close() }) {
				cleanup = "panic"
			}
		}
		if gp != nil {
			close(gp.stop)
		}
		wl := [][]any{}
		for _, id := range ids {
			m := members[id]
			m.mu.Lock()
			ks := []int{}
			for _, w := range m.writes {
				k := -1
				if len(w) > 0 && len(w) == 1<<(int(w[0])-1) {
					k = int(w[0])
				}
				ks = append(ks, k)
			}
			m.mu.Unlock()
			wl = append(wl, []any{id, ks})
		}
		// the counters are checked once more at the end of every scenario
		var tx, rx uint64
		if guard(func() { tx, rx = mt.TxBytesCounterValue(), mt.RxBytesCounterValue() }) {
			cleanup = "panic"
		}
		mtx, mrx := [][]any{}, [][]any{}
		for _, id := range ids {
			mtx = append(mtx, []any{id, int(members[id].TxBytesCounterValue())})
			mrx = append(mrx, []any{id, int(members[id].RxBytesCounterValue())})
		}
		rec.Log("MtOp", "a", "final", "ret", cleanup, "wlogs", wl, "tx", int(tx), "rx", int(rx), "mtx", mtx, "mrx", mrx)
	}()

	// current member as seen through NegotiationParams ("panic" if the call crashes)
	probe := func() string {
		var p transport.NegotiationParams
		if guard(func() { p = mt.NegotiationParams() }) {
			return "panic"
		}
		return string(p.TransportID)
	}

	for _, st := range sc.Steps {
		switch st.A {
		case "select":
			id := st.ID
			sent := true
			switch mode {
			case "event":
				select {
				case evCh <- transport.TransportID(id):
				case <-time.After(opTimeout):
					sent = false
				}
			case "nic":
				name := "nic-" + id
				if id == "" {
					name = "nic-unplugged"
				}
				select {
				case nicCh <- name:
				case <-time.After(opTimeout):
					sent = false
				}
			case "poll", "rr", "lastused":
				r := pollReq{id: id, done: make(chan string, 1)}
				select {
				case gp.req <- r:
					id = <-r.done
				case <-time.After(opTimeout):
					sent = false
				}
			default:
				rec.Log("Inconclusive", "why", "select in mode "+mode)
				continue
			}
			if !sent {
				rec.Log("Inconclusive", "why", "the scheduler did not take the selection")
				continue
			}
			pr, seen, sawPanic := "none", false, false
			if heldRet != nil {
				// a write is in flight: NegotiationParams would queue behind transportIDLoop's Lock - no observation here
				if isMember[id] {
					heldSel = id
				}
				rec.Log("MtOp", "a", "select", "id", id, "known", isMember[id], "wait", false, "probe", pr, "seen", false, "sawPanic", false)
				continue
			}
			if wait {
				limit := unknownWindow
				if isMember[id] {
					limit = seenTimeout
				}
				deadline := time.Now().Add(limit)
				for {
					pr = probe()
					if pr == "panic" {
						sawPanic = true
						if !isMember[id] {
							break
						}
					}
					if isMember[id] && pr == id {
						seen = true
						break
					}
					if !time.Now().Before(deadline) {
						break
					}
					time.Sleep(probeEvery)
				}
			}
			rec.Log("MtOp", "a", "select", "id", id, "known", isMember[id], "wait", wait, "probe", pr, "seen", seen, "sawPanic", sawPanic)
		case "write":
			k := st.N
			if k < 1 || k > 20 {
				rec.Log("Inconclusive", "why", "bad write number")
				continue
			}
			ret := "ok"
			var werr error
			if guard(func() { werr = mt.Write(wPayload(k)) }) {
				ret = "panic"
			} else if werr != nil {
				ret = "error"
			}
			to := []string{}
			for _, id := range ids {
				m := members[id]
				m.mu.Lock()
				for _, w := range m.writes {
					if len(w) == 1<<(k-1) && int(w[0]) == k {
						to = append(to, id)
					}
				}
				m.mu.Unlock()
			}
			rec.Log("MtOp", "a", "write", "n", k, "ret", ret, "to", to)
		case "renew":
			// the application (iscp reconnect) builds a NEW multi transport from the same configuration objects - in particular the same
			// scheduler - over fresh member connections; the old one is closed first
			if !closed {
				guard(func() { mt.Close() })
			}
			if gp != nil {
				// the polling loop of the closed generation may still sit in the gated Get (a real poller never blocks): let it return,
				// so that it cannot take the next scripted selection away from the new generation. Its context is done, the id is dropped.
				for k := 0; k < 4; k++ {
					select {
					case gp.req <- pollReq{flush: true}:
						continue
					case <-time.After(25 * time.Millisecond):
					}
					break
				}
			}
			mkMembers()
			cfg.TransportMap = tm
			ret := "ok"
			var nerr error
			if guard(func() { mt, nerr = tmulti.NewTransport(cfg) }) {
				ret = "panic"
			} else if nerr != nil {
				ret = "error"
			}
			closed = false
			rec.Log("MtOp", "a", "new", "ret", ret)
			if ret != "ok" {
				return rec
			}
		case "writeBegin":
			k := st.N
			if k < 1 || k > 20 || heldRet != nil {
				rec.Log("Inconclusive", "why", "bad writeBegin")
				continue
			}
			gate.arm()
			entered, release := gate.entered, gate.release
			c := make(chan string, 1)
			go func() {
				var werr error
				if guard(func() { werr = mt.Write(wPayload(k)) }) {
					c <- "panic"
				} else if werr != nil {
					c <- "error"
				} else {
					c <- "ok"
				}
			}()
			select {
			case id := <-entered:
				heldRet, heldRelease, heldSel = c, release, ""
				rec.Log("MtOp", "a", "writeBegin", "n", k, "ret", "ok", "to", []string{id})
			case r := <-c: // the call returned without entering a member (panic / error)
				gate.take()
				rec.Log("MtOp", "a", "writeBegin", "n", k, "ret", r, "to", []string{})
			case <-time.After(opTimeout):
				gate.take()
				rec.Log("MtOp", "a", "writeBegin", "n", k, "ret", "timeout", "to", []string{})
			}
		case "writeEnd":
			if heldRet == nil {
				rec.Log("MtOp", "a", "writeEnd", "ret", "ok", "wait", false, "probe", "none")
				continue
			}
			time.Sleep(time.Duration(holdMs) * time.Millisecond) // the selections issued meanwhile have reached transportIDLoop's side of the pipeline
			close(heldRelease)
			ret := "timeout"
			select {
			case ret = <-heldRet:
			case <-time.After(opTimeout):
			}
			heldRet, heldRelease = nil, nil
			pr := "none"
			if wait {
				// observe the current member until it is the last member selected meanwhile (or for the observation window)
				limit := unknownWindow
				if heldSel != "" {
					limit = seenTimeout
				}
				deadline := time.Now().Add(limit)
				for {
					pr = probe()
					if pr == "panic" || (heldSel != "" && pr == heldSel) || !time.Now().Before(deadline) {
						break
					}
					time.Sleep(probeEvery)
				}
				if heldSel != "" && pr == heldSel {
					// the queue behind it (ids that must be ignored) is drained within the observation window
					time.Sleep(unknownWindow)
					pr = probe()
				}
			}
			rec.Log("MtOp", "a", "writeEnd", "ret", ret, "wait", wait, "probe", pr)
		case "memberRead":
			m, ok := members[st.Src]
			if !ok || st.N < 1 || st.N > 20 {
				rec.Log("Inconclusive", "why", "memberRead on a non-member")
				continue
			}
			r := feedReq{bs: rPayload(st.N), ack: make(chan struct{})}
			ret := "ok"
			select {
			case m.feed <- r:
				<-r.ack
			case <-time.After(opTimeout):
				ret = "timeout" // the transport is not reading this member
			}
			rec.Log("MtOp", "a", "memberRead", "src", st.Src, "n", st.N, "ret", ret)
		case "memberFail":
			// the member's pending Read fails (its link is gone); the member itself stays open until somebody closes it
			m, ok := members[st.Src]
			if !ok {
				rec.Log("Inconclusive", "why", "memberFail on a non-member")
				continue
			}
			ret := "ok"
			select {
			case m.failc <- struct{}{}:
			case <-time.After(opTimeout):
				ret = "timeout"
			}
			time.Sleep(20 * time.Millisecond) // let the reader goroutine act on the error
			rec.Log("MtOp", "a", "memberFail", "src", st.Src, "ret", ret)
		case "read":
			if pendingRead == nil {
				c := make(chan readRes, 1)
				pendingRead = c
				go func() {
					var bs []byte
					var rerr error
					if guard(func() { bs, rerr = mt.Read() }) {
						c <- readRes{"panic", 0}
						return
					}
					switch {
					case rerr != nil && stderrors.Is(rerr, transport.ErrAlreadyClosed):
						c <- readRes{"closed", 0}
					case rerr != nil:
						c <- readRes{"error", 0}
					case len(bs) > 0 && int(bs[0]) > 100 && len(bs) == 8<<(int(bs[0])-101):
						c <- readRes{"msg", int(bs[0]) - 100}
					default:
						c <- readRes{"garbage", 0}
					}
				}()
			}
			select {
			case r := <-pendingRead:
				pendingRead = nil
				rec.Log("MtOp", "a", "read", "ret", r.ret, "n", r.k)
			case <-time.After(opTimeout):
				rec.Log("MtOp", "a", "read", "ret", "timeout", "n", 0)
			}
		case "close":
			ret := "ok"
			var cerr error
			if guard(func() { cerr = mt.Close() }) {
				ret = "panic"
			} else if cerr != nil {
				ret = "error"
			}
			closed = true
			cl := [][]any{}
			for _, id := range ids {
				m := members[id]
				m.mu.Lock()
				cl = append(cl, []any{id, m.closes})
				m.mu.Unlock()
			}
			rec.Log("MtOp", "a", "close", "ret", ret, "closes", cl)
		case "counters":
			var tx, rx uint64
			ret := "ok"
			if guard(func() { tx, rx = mt.TxBytesCounterValue(), mt.RxBytesCounterValue() }) {
				ret = "panic"
			}
			mtx, mrx := [][]any{}, [][]any{}
			for _, id := range ids {
				mtx = append(mtx, []any{id, int(members[id].TxBytesCounterValue())})
				mrx = append(mrx, []any{id, int(members[id].RxBytesCounterValue())})
			}
			rec.Log("MtOp", "a", "counters", "ret", ret, "tx", int(tx), "rx", int(rx), "mtx", mtx, "mrx", mrx)
		case "asUnreliable":
			ret := "none"
			if guard(func() {
				if u, ok := mt.AsUnreliable(); ok {
					if uu, ok := u.(*unrel); ok {
						ret = uu.id
					} else {
						ret = "foreign"
					}
				}
			}) {
				ret = "panic"
			}
			rec.Log("MtOp", "a", "asUnreliable", "ret", ret)
		case "negotiationParams":
			rec.Log("MtOp", "a", "negotiationParams", "ret", probe())
		default:
			rec.Log("Inconclusive", "why", fmt.Sprintf("unknown step %q", st.A))
		}
	}
	return rec
}
