// Package wswindow is the C13 component driver: a real websocket.New pair over an in-memory
// websocket.Conn (and a real quic.New pair over an in-memory quic.Connection), replaying the
// operation scripts generated from spec/WsWindow.tla and logging results and state
// projections for the monitor spec/MonC13.tla.
package wswindow

import (
	"context"
	"errors"
	"io"
	"runtime"
	"sync"

	"github.com/aptpod/iscp-go/transport"
	"github.com/aptpod/iscp-go/transport/websocket"
)

// lane is one direction of the in-memory WebSocket connection: a FIFO of complete frames.
// It captures every raw frame and counts the bytes it carried. Like the default backend
// (github.com/coder/websocket: "only one writer can be open at a time, multiple calls will
// block until the previous writer is closed") it serialises Writer(): a writer handle is
// exclusive from Writer() until Close(). With excl=false (diagnostic family only) handles
// are not exclusive and a frame is put on the wire atomically at Close().
type lane struct {
	mu       sync.Mutex
	cond     *sync.Cond
	q        [][]byte
	frames   [][]byte // every frame in wire order
	wire     int      // bytes put on the wire
	consumed int      // bytes handed to the reader
	chunkLog []int    // handle id per Write call, in call order
	closeLog []int    // handle id per Close call, in wire order
	nh       int
	closed   bool

	excl     bool
	sem      chan struct{} // writer exclusivity
	gated    bool
	arrivals chan *handle // gated: every Writer() call announces itself here
	rchunk   int          // reader hands out at most rchunk bytes per Read call (0 = everything)
	rcalls   int          // Reader() calls since beginRead
	// strict: like github.com/coder/websocket (and nhooyr.io/websocket) the connection refuses to hand out the next message
	// while the previous message's reader has not reported the end of the message. A message written through Writer() travels as
	// data frames followed by an empty final frame, so the end is only seen by a Read call that follows the last data byte.
	// Not strict: like gorilla/websocket the rest of the previous message is discarded.
	strict bool
	cur    *frameReader
}

func newLane(excl, gated bool, rchunk int) *lane {
	l := &lane{excl: excl, gated: gated, rchunk: rchunk, sem: make(chan struct{}, 1), arrivals: make(chan *handle, 16)}
	l.cond = sync.NewCond(&l.mu)
	return l
}

// handle is one message writer (io.WriteCloser).
type handle struct {
	l       *lane
	id      int
	buf     []byte
	nwrites int
	done    bool
	// gates (gated lanes only)
	acq, emit, rel   chan struct{}
	atWrite, atClose chan int
}

func (l *lane) writer(ctx context.Context) (*handle, error) {
	l.mu.Lock()
	if l.closed {
		l.mu.Unlock()
		return nil, transport.ErrAlreadyClosed
	}
	l.nh++
	h := &handle{l: l, id: l.nh}
	l.mu.Unlock()
	if l.gated {
		h.acq, h.emit, h.rel = make(chan struct{}), make(chan struct{}), make(chan struct{})
		h.atWrite, h.atClose = make(chan int, 1), make(chan int, 1)
		l.arrivals <- h
		select {
		case <-h.acq:
		case <-ctx.Done():
			return nil, ctx.Err()
		}
	}
	if l.excl {
		select {
		case l.sem <- struct{}{}:
		case <-ctx.Done():
			return nil, ctx.Err()
		}
	}
	return h, nil
}

func (h *handle) Write(p []byte) (int, error) {
	if h.done {
		return 0, errors.New("memconn: write on closed writer")
	}
	if h.l.gated && h.nwrites == 0 {
		h.atWrite <- len(p)
		<-h.emit
	}
	h.nwrites++
	h.buf = append(h.buf, p...)
	h.l.mu.Lock()
	h.l.chunkLog = append(h.l.chunkLog, h.id)
	h.l.mu.Unlock()
	runtime.Gosched() // invite other writers while the message is open
	return len(p), nil
}

func (h *handle) Close() error {
	if h.done {
		return errors.New("memconn: writer closed twice")
	}
	if h.l.gated {
		if h.nwrites == 0 {
			h.atWrite <- 0
			<-h.emit
		}
		h.atClose <- len(h.buf)
		<-h.rel
	}
	h.done = true
	l := h.l
	l.mu.Lock()
	f := append([]byte(nil), h.buf...)
	l.q = append(l.q, f)
	l.frames = append(l.frames, f)
	l.wire += len(f)
	l.closeLog = append(l.closeLog, h.id)
	l.cond.Broadcast()
	l.mu.Unlock()
	if l.excl {
		<-l.sem
	}
	return nil
}

type frameReader struct {
	l    *lane
	data []byte
	eof  bool // the end of the message was reported (guarded by l.mu)
}

func (r *frameReader) Read(p []byte) (int, error) {
	if len(r.data) == 0 {
		r.l.mu.Lock()
		r.eof = true
		r.l.mu.Unlock()
		return 0, io.EOF
	}
	n := len(p)
	if r.l.rchunk > 0 && n > r.l.rchunk {
		n = r.l.rchunk
	}
	if n > len(r.data) {
		n = len(r.data)
	}
	copy(p, r.data[:n])
	r.data = r.data[n:]
	r.l.mu.Lock()
	r.l.consumed += n
	r.l.mu.Unlock()
	return n, nil
}

// beginRead is called by the driver before every Transport.Read: one Read must take exactly one
// message from the connection.  A second Reader() call inside the same Read (the transport skipped
// or merged a message) is refused instead of blocking for ever.
func (l *lane) beginRead() {
	l.mu.Lock()
	l.rcalls = 0
	l.mu.Unlock()
}

var errSecondReader = errors.New("memconn: second Reader() call within one Transport.Read")
var errNotDrained = errors.New("memconn: previous message not read to completion")

func (l *lane) reader(ctx context.Context) (io.Reader, error) {
	stop := context.AfterFunc(ctx, func() {
		l.mu.Lock()
		l.cond.Broadcast()
		l.mu.Unlock()
	})
	defer stop()
	l.mu.Lock()
	defer l.mu.Unlock()
	l.rcalls++
	if l.rcalls > 1 {
		return nil, errSecondReader
	}
	if l.strict && l.cur != nil && !l.cur.eof {
		return nil, errNotDrained
	}
	for len(l.q) == 0 {
		if l.closed {
			return nil, transport.ErrAlreadyClosed
		}
		if ctx.Err() != nil {
			return nil, ctx.Err()
		}
		l.cond.Wait()
	}
	f := l.q[0]
	l.q = l.q[1:]
	l.cur = &frameReader{l: l, data: f}
	return l.cur, nil
}

func (l *lane) close() {
	l.mu.Lock()
	l.closed = true
	l.cond.Broadcast()
	l.mu.Unlock()
}

func (l *lane) pending() int {
	l.mu.Lock()
	defer l.mu.Unlock()
	return len(l.q)
}

func (l *lane) snapshot() (nframes, wire, consumed int) {
	l.mu.Lock()
	defer l.mu.Unlock()
	return len(l.frames), l.wire, l.consumed
}

func (l *lane) frame(i int) []byte {
	l.mu.Lock()
	defer l.mu.Unlock()
	return l.frames[i]
}

// aligned reports whether all Write calls of the handle that closed as wire frame i were
// contiguous in the global call order (no other writer wrote into the connection while the
// message was open).
func (l *lane) aligned(i int) bool {
	l.mu.Lock()
	defer l.mu.Unlock()
	id := l.closeLog[i]
	first, last, cnt := -1, -1, 0
	for k, h := range l.chunkLog {
		if h == id {
			if first < 0 {
				first = k
			}
			last = k
			cnt++
		}
	}
	return cnt == 0 || last-first+1 == cnt
}

// end is one end of the in-memory connection and implements websocket.Conn.
type end struct {
	out, in *lane
}

var _ websocket.Conn = (*end)(nil)

func (e *end) Close() error { return e.CloseWithStatus(transport.CloseStatusNormal) }
func (e *end) CloseWithStatus(transport.CloseStatus) error {
	e.out.close()
	e.in.close()
	return nil
}
func (e *end) Ping(context.Context) error { return nil }
func (e *end) Reader(ctx context.Context) (websocket.MessageType, io.Reader, error) {
	rd, err := e.in.reader(ctx)
	if err != nil {
		return 0, nil, err
	}
	return websocket.MessageBinary, rd, nil
}

func (e *end) Writer(ctx context.Context, _ websocket.MessageType) (io.WriteCloser, error) {
	h, err := e.out.writer(ctx)
	if err != nil {
		return nil, err
	}
	return h, nil
}
