package wswindow

import (
	"context"
	"crypto/ecdsa"
	"crypto/elliptic"
	"crypto/rand"
	"crypto/tls"
	"crypto/x509"
	"crypto/x509/pkix"
	"fmt"
	"io"
	"math/big"
	"net"
	"net/http"
	"time"

	twt "github.com/aptpod/iscp-go/transport/webtransport"
	quicgo "github.com/quic-go/quic-go"
	"github.com/quic-go/quic-go/http3"
	webtransgo "github.com/quic-go/webtransport-go"

	"verifharness/h"
)

// Kind "wtreal": the real webtransport.Transport over a real WebTransport session (quic-go over loopback UDP, self-signed certificate)
// to a server that echoes every unidirectional stream byte for byte. The one transport is writer and reader of the model, as in "wsreal".
func init() {
	h.Kinds["wtreal"] = runWT
}

func selfSigned() (tls.Certificate, error) {
	key, err := ecdsa.GenerateKey(elliptic.P256(), rand.Reader)
	if err != nil {
		return tls.Certificate{}, err
	}
	tmpl := &x509.Certificate{SerialNumber: big.NewInt(1), Subject: pkix.Name{CommonName: "localhost"},
		NotBefore: time.Now().Add(-time.Hour), NotAfter: time.Now().Add(24 * time.Hour),
		KeyUsage: x509.KeyUsageDigitalSignature, ExtKeyUsage: []x509.ExtKeyUsage{x509.ExtKeyUsageServerAuth},
		DNSNames: []string{"localhost"}, IPAddresses: []net.IP{net.IPv4(127, 0, 0, 1)}}
	der, err := x509.CreateCertificate(rand.Reader, tmpl, tmpl, &key.PublicKey, key)
	if err != nil {
		return tls.Certificate{}, err
	}
	return tls.Certificate{Certificate: [][]byte{der}, PrivateKey: key}, nil
}

func runWT(sc *h.Scenario) *h.Rec {
	rec := h.NewRec(sc.ID)
	p := sc.P
	mode := pstr(p, "mode", "off")
	level := pint(p, "level", 0)
	rec.Log("Reset", "kind", sc.Kind, "p", h.Ev{"kind": "real", "mode": mode, "level": level, "bits": 0, "backend": "webtransport", "server": "stream",
		"content": pstr(p, "content", "rep")})
	defer rec.Log("End")
	cert, err := selfSigned()
	if err != nil {
		rec.Log("Inconclusive", "why", "certificate: "+tail(err.Error()))
		return rec
	}
	pc, err := net.ListenPacket("udp", "127.0.0.1:0")
	if err != nil {
		rec.Log("Inconclusive", "why", "no loopback UDP listener: "+tail(err.Error()))
		return rec
	}
	sv := &webtransgo.Server{CheckOrigin: func(*http.Request) bool { return true },
		H3: http3.Server{TLSConfig: http3.ConfigureTLSConfig(&tls.Config{Certificates: []tls.Certificate{cert}}), QUICConfig: &quicgo.Config{EnableDatagrams: true}}}
	sv.H3.Handler = http.HandlerFunc(func(w http.ResponseWriter, r *http.Request) {
		sess, err := sv.Upgrade(w, r)
		if err != nil {
			http.Error(w, "upgrade failed", 500)
			return
		}
		defer sess.CloseWithError(0, "")
		go func() { // datagrams come back as they are
			for {
				m, err := sess.ReceiveDatagram(r.Context())
				if err != nil {
					return
				}
				if err := sess.SendDatagram(m); err != nil {
					return
				}
			}
		}()
		for {
			rs, err := sess.AcceptUniStream(r.Context())
			if err != nil {
				return
			}
			ss, err := sess.OpenUniStream()
			if err != nil {
				return
			}
			if _, err := io.Copy(ss, rs); err != nil {
				return
			}
			ss.Close()
		}
	})
	go sv.Serve(pc)
	defer sv.Close()
	defer pc.Close()
	d := &webtransgo.Dialer{TLSClientConfig: &tls.Config{InsecureSkipVerify: true, NextProtos: []string{http3.NextProtoH3}}, QUICConfig: &quicgo.Config{EnableDatagrams: true}}
	ctx, cancel := context.WithTimeout(context.Background(), 10*time.Second)
	defer cancel()
	_, sess, err := d.Dial(ctx, fmt.Sprintf("https://%s", pc.LocalAddr().String()), nil)
	if err != nil {
		rec.Log("Inconclusive", "why", "dial: "+tail(err.Error()))
		return rec
	}
	t, err := twt.New(twt.Config{Connection: sess, NegotiationParams: twt.NegotiationParams{NegotiationParams: negotiated(mode, level, 0)}})
	if err != nil {
		rec.Log("Inconclusive", "why", "webtransport.New: "+tail(err.Error()))
		return rec
	}
	defer safely(t.Close)
	r := &runner{rec: rec, seed: pint(p, "seed", 1), content: pstr(p, "content", "rep"), sent: map[int]*sentMsg{}, nq: map[int]int{}}
	inFlight := 0
	for _, st := range sc.Steps {
		switch st.A {
		case "write":
			id := r.newMsg(1, st.N)
			ret, detail := safely(func() error { return t.Write(r.sent[id].b) })
			if ret == "timeout" {
				rec.Log("Inconclusive", "why", "watchdog: Write did not return")
				return rec
			}
			rec.Log("RealOp", "a", "write", "n", st.N, "ret", ret, "detail", tail(detail))
			inFlight++
		case "dwrite":
			// a datagram message (split into segments by the transport); alternately through WriteUnreliable and AsUnreliable().Write
			id := r.newMsg(2, st.N)
			var werr func() error
			if u, ok := t.AsUnreliable(); ok && id%2 == 0 {
				werr = func() error { return u.Write(r.sent[id].b) }
			} else {
				werr = func() error { return t.WriteUnreliable(r.sent[id].b) }
			}
			ret, detail := safely(werr)
			rec.Log("RealOp", "a", "dwrite", "n", st.N, "id", id, "ret", ret, "detail", tail(detail))
			time.Sleep(3 * time.Millisecond) // do not overrun the datagram queues of the loopback session
		case "ddrain":
			// hand up whatever has arrived until nothing comes for 300 ms: every message is exactly one written message, none twice
			got := []any{}
			for {
				type rr struct {
					m   []byte
					err error
				}
				c := make(chan rr, 1)
				go func() { m, err := t.ReadUnreliable(); c <- rr{m, err} }()
				var x rr
				select {
				case x = <-c:
				case <-time.After(300 * time.Millisecond):
					x.err = context.DeadlineExceeded
				}
				if x.err != nil {
					break
				}
				got = append(got, []any{r.matchRead(x.m), len(x.m)})
			}
			rec.Log("RealOp", "a", "ddrain", "got", got)
		case "read":
			if inFlight == 0 {
				rec.Log("Inconclusive", "why", "read scripted with nothing in flight")
				return rec
			}
			var res []byte
			ret, detail := safely(func() error {
				var err error
				res, err = t.Read()
				return err
			})
			if ret == "timeout" {
				rec.Log("Inconclusive", "why", "watchdog: Read did not return")
				return rec
			}
			rdm := -1
			if ret == "ok" {
				rdm = r.matchRead(res)
			}
			rec.Log("RealOp", "a", "read", "ret", ret, "detail", tail(detail), "rdm", rdm, "rdlen", len(res))
			inFlight--
		}
	}
	rec.Log("RealOp", "a", "final", "tx", int(t.TxBytesCounterValue()), "rx", int(t.RxBytesCounterValue()))
	return rec
}
