package wswindow

import (
	"bytes"
	"fmt"
	"sync"
	"time"

	"github.com/aptpod/iscp-go/transport"
	"github.com/aptpod/iscp-go/transport/compress"
	tquic "github.com/aptpod/iscp-go/transport/quic"
	"github.com/aptpod/iscp-go/transport/websocket"

	"verifharness/h"
)

func init() {
	h.Kinds["wswindow"] = func(sc *h.Scenario) *h.Rec { return run(sc, false) }
	h.Kinds["quicstream"] = func(sc *h.Scenario) *h.Rec { return run(sc, true) }
}

// watchdog for one call into the library. A call that does not return in time makes the scenario
// inconclusive (never a violation): the property is not about time and the machine may be overloaded.
const callTimeout = 120 * time.Second

func pint(p map[string]any, k string, def int) int {
	if v, ok := p[k].(float64); ok {
		return int(v)
	}
	return def
}

func pstr(p map[string]any, k, def string) string {
	if v, ok := p[k].(string); ok {
		return v
	}
	return def
}

func pints(p map[string]any, k string) []int {
	out := []int{}
	if l, ok := p[k].([]any); ok {
		for _, x := range l {
			if f, ok := x.(float64); ok {
				out = append(out, int(f))
			}
		}
	}
	return out
}

// msgTransport is what both transports offer.
type msgTransport interface {
	Read() ([]byte, error)
	Write([]byte) error
	TxBytesCounterValue() uint64
	RxBytesCounterValue() uint64
	Close() error
}

func negotiated(mode string, level, bits int) transport.NegotiationParams {
	np := transport.NegotiationParams{}
	switch mode {
	case "pm":
		np.Compress = compress.TypePerMessage
	case "ct":
		np.Compress = compress.TypeContextTakeOver
	}
	if mode != "off" {
		lv, wb := level, bits
		np.CompressLevel = &lv
		np.CompressWindowBits = &wb
	}
	return np
}

// safely runs f with panic recovery and a watchdog; ret is ok | error | panic | timeout.
func safely(f func() error) (ret string, detail string) {
	done := make(chan [2]string, 1)
	go func() {
		defer func() {
			if r := recover(); r != nil {
				done <- [2]string{"panic", fmt.Sprint(r)}
			}
		}()
		if err := f(); err != nil {
			done <- [2]string{"error", err.Error()}
			return
		}
		done <- [2]string{"ok", ""}
	}()
	select {
	case r := <-done:
		return r[0], r[1]
	case <-time.After(callTimeout):
		return "timeout", ""
	}
}

type sentMsg struct {
	g, q int
	b    []byte
	read bool
}

type runner struct {
	rec     *h.Rec
	quic    bool
	a, b    msgTransport
	wsA     *websocket.Transport
	wsB     *websocket.Transport
	ab      *lane // websocket: a -> b
	qab     *pipe // quic: a -> b
	ind     *indep
	seed    int
	content string

	sent       map[int]*sentMsg // model id -> message
	nsent      int
	nq         map[int]int
	wcat, rcat []byte // plaintext in encode order / in read order
	nframes    int    // wire frames already processed
}

func tail(d string) string {
	if len(d) > 160 {
		return d[:160]
	}
	return d
}

// win renders a window buffer as [len, isSuffixOfPlaintext, crc].
func win(w, cat []byte) []int { return []int{len(w), b2i(suffixOf(w, cat)), crc(w)} }

// writerWindow / readerWindow project the context-takeover buffers of the writing transport A
// and the reading transport B.  VerifWindows takes both window locks of one transport, so the
// writer side is only sampled when no writer of A is inside encodeTo (after Write returned).
func (r *runner) writerWindow() []int {
	if r.quic {
		return []int{0, 1, 0}
	}
	w, _ := r.wsA.VerifWindows()
	return win(w, r.wcat)
}

func (r *runner) readerWindow() []int {
	if r.quic {
		return []int{0, 1, 0}
	}
	_, rd := r.wsB.VerifWindows()
	return win(rd, r.rcat)
}

// wireState returns the number of frames on the wire, the bytes carried and the bytes consumed by the reader.
func (r *runner) wireState() (nframes, wire, consumed int) {
	if r.quic {
		total, rd := r.qab.snapshot()
		return len(r.qab.parse()), total, rd
	}
	return r.ab.snapshot()
}

// frameInfo runs the independent decoder on wire frame i and returns its length on the wire,
// the decoded plaintext (nil on failure) and the alignment flag.
func (r *runner) frameInfo(i int) (flen int, plain []byte, ok bool, aligned bool, dictBefore []byte) {
	var raw []byte
	if r.quic {
		fs := r.qab.parse()
		raw, aligned = fs[i].payload, fs[i].aligned
		flen = 4 + len(raw)
	} else {
		raw, aligned = r.ab.frame(i), r.ab.aligned(i)
		flen = len(raw)
	}
	dictBefore = r.ind.dict
	out, err := r.ind.decode(raw)
	if err != nil {
		return flen, nil, false, aligned, dictBefore
	}
	if out == nil {
		out = []byte{}
	}
	return flen, out, true, aligned, dictBefore
}

// indepClass: 1 = the frame decodes to exactly msg; 2 = it decodes to dictionary+msg (the frame carries
// the preset dictionary as data); 0 = anything else.
func indepClass(plain []byte, ok bool, msg, dictBefore []byte) int {
	switch {
	case !ok:
		return 0
	case bytes.Equal(plain, msg):
		return 1
	case len(dictBefore) > 0 && len(plain) == len(dictBefore)+len(msg) && bytes.HasPrefix(plain, dictBefore) && bytes.HasSuffix(plain, msg):
		return 2
	}
	return 0
}

// afterWrite logs the completion event of a write-like operation (write | rel) of message id.
func (r *runner) afterWrite(a string, g, id int, ret, detail string, f0 int, chk int) {
	f1, wire, _ := r.wireState()
	flen, indepOK, aligned := 0, 0, 1
	if f1 > f0 {
		fl, plain, ok, al, db := r.frameInfo(f0)
		flen, aligned = fl, b2i(al)
		indepOK = indepClass(plain, ok, r.sent[id].b, db)
		for i := f0 + 1; i < f1; i++ { // keep the independent decoder in step with surplus frames
			r.frameInfo(i)
		}
	}
	r.nframes = f1
	ww := r.writerWindow()
	r.rec.Log("WsOp", "a", a, "tag", g, "seq", r.sent[id].q, "n", len(r.sent[id].b), "ret", ret, "detail", tail(detail),
		"frames", f1-f0, "flen", flen, "tx", int(r.a.TxBytesCounterValue()), "wire", wire, "ww", ww,
		"indep", indepOK, "aligned", aligned, "chk", chk)
}

func (r *runner) newMsg(g, n int) int {
	r.nsent++
	r.nq[g]++
	r.sent[r.nsent] = &sentMsg{g: g, q: r.nq[g], b: msgBytes(r.seed, r.nsent, g, r.nq[g], n, r.content)}
	return r.nsent
}

// matchRead returns the lowest unread message id whose bytes equal res (-1: none).
func (r *runner) matchRead(res []byte) int {
	for id := 1; id <= r.nsent; id++ {
		m := r.sent[id]
		if m != nil && !m.read && bytes.Equal(m.b, res) {
			m.read = true
			return id
		}
	}
	return -1
}

func (r *runner) doRead() bool {
	var res []byte
	if r.ab != nil {
		r.ab.beginRead()
	}
	ret, detail := safely(func() error {
		var err error
		res, err = r.b.Read()
		return err
	})
	if ret == "timeout" {
		r.rec.Log("Inconclusive", "why", "watchdog: Read did not return")
		return false
	}
	r.rcat = append(r.rcat, res...)
	rdm := -1
	if ret == "ok" {
		rdm = r.matchRead(res)
	}
	rw := r.readerWindow()
	_, _, consumed := r.wireState()
	r.rec.Log("WsOp", "a", "read", "ret", ret, "detail", tail(detail), "rdm", rdm, "rdlen", len(res),
		"rx", int(r.b.RxBytesCounterValue()), "rwire", consumed, "rw", rw)
	return true
}

func run(sc *h.Scenario, isQuic bool) *h.Rec {
	rec := h.NewRec(sc.ID)
	p := sc.P
	mode := pstr(p, "mode", "off")
	level, bits := pint(p, "level", 0), pint(p, "bits", 0)
	fam := pstr(p, "fam", "seq")
	excl := pint(p, "excl", 1) == 1
	rchunk := pint(p, "rchunk", 0)
	kind := "ws"
	if isQuic {
		kind = "quic"
	}
	rec.Log("Reset", "kind", sc.Kind, "p", h.Ev{"kind": kind, "mode": mode, "level": level, "bits": bits, "fam": fam,
		"content": pstr(p, "content", "rep"), "rchunk": rchunk, "excl": b2i(excl), "backend": pstr(p, "backend", "coder")})
	r := &runner{rec: rec, quic: isQuic, seed: pint(p, "seed", 1), content: pstr(p, "content", "rep"),
		sent: map[int]*sentMsg{}, nq: map[int]int{}, ind: newIndep(mode, level, bits)}
	np := negotiated(mode, level, bits)
	if isQuic {
		if mode == "ct" {
			// the stream transports have no context takeover: any enabled compression is per message
			r.ind = newIndep("pm", level, bits)
		}
		ca, cb := newQPair(rchunk)
		r.qab = ca.out
		ta, err := tquic.New(tquic.Config{Connection: ca, NegotiationParams: tquic.NegotiationParams{NegotiationParams: np}})
		if err != nil {
			rec.Log("Inconclusive", "why", "quic.New: "+err.Error())
			rec.Log("End")
			return rec
		}
		tb, err := tquic.New(tquic.Config{Connection: cb, NegotiationParams: tquic.NegotiationParams{NegotiationParams: np}})
		if err != nil {
			rec.Log("Inconclusive", "why", "quic.New: "+err.Error())
			rec.Log("End")
			return rec
		}
		r.a, r.b = ta, tb
	} else {
		ab, ba := newLane(excl, fam == "gated", rchunk), newLane(true, false, 0)
		ab.strict = pstr(p, "backend", "coder") != "gorilla" // coder (default backend) and nhooyr share the reader contract
		ba.strict = ab.strict
		r.ab = ab
		r.wsA = websocket.New(websocket.Config{Conn: &end{out: ab, in: ba}, NegotiationParams: websocket.NegotiationParams{NegotiationParams: np}})
		r.wsB = websocket.New(websocket.Config{Conn: &end{out: ba, in: ab}, NegotiationParams: websocket.NegotiationParams{NegotiationParams: np}})
		r.a, r.b = r.wsA, r.wsB
	}
	defer func() {
		safely(r.a.Close)
		safely(r.b.Close)
	}()
	switch fam {
	case "race":
		r.race(pint(p, "writers", 2), pint(p, "per", 4), pints(p, "lens"))
	default:
		r.script(sc.Steps)
	}
	rec.Log("End")
	return rec
}

// script replays write/read (sequential) and start/acq/enc/emit/rel (gated writers) operations.
func (r *runner) script(steps []h.Step) {
	rec := r.rec
	type gstate struct {
		hd   *handle
		id   int
		done chan [2]string
		flen int
	}
	gs := map[int]*gstate{}
	inFlight := 0 // frames on the wire not yet read
	wait := func(c chan int) (int, bool) {
		select {
		case v := <-c:
			return v, true
		case <-time.After(callTimeout):
			return 0, false
		}
	}
	for _, st := range steps {
		g := st.Tag
		switch st.A {
		case "cfg":
		case "write":
			if g == 0 {
				g = 1
			}
			id := r.newMsg(g, st.N)
			f0, _, _ := r.wireState()
			r.wcat = append(r.wcat, r.sent[id].b...)
			ret, detail := safely(func() error { return r.a.Write(r.sent[id].b) })
			if ret == "timeout" {
				rec.Log("Inconclusive", "why", "watchdog: Write did not return")
				return
			}
			r.afterWrite("write", g, id, ret, detail, f0, 1)
			inFlight++
		case "read":
			if inFlight == 0 {
				rec.Log("Inconclusive", "why", "read scripted with nothing in flight")
				return
			}
			if !r.doRead() {
				return
			}
			inFlight--
		case "start":
			id := r.newMsg(g, st.N)
			s := &gstate{id: id, done: make(chan [2]string, 1)}
			gs[g] = s
			msg := r.sent[id].b
			go func() {
				ret, detail := safely(func() error { return r.a.Write(msg) })
				s.done <- [2]string{ret, detail}
			}()
			select {
			case s.hd = <-r.ab.arrivals:
				rec.Log("WsOp", "a", "start", "tag", g, "n", st.N, "ret", "ok")
			case <-time.After(callTimeout):
				rec.Log("Inconclusive", "why", "Write did not call Conn.Writer")
				return
			}
		case "acq":
			s := gs[g]
			if s == nil || s.hd == nil {
				rec.Log("Inconclusive", "why", "acq without start")
				return
			}
			close(s.hd.acq)
			// the writer now encodes (under the window lock) and arrives at the first wr.Write
			fl, ok := wait(s.hd.atWrite)
			if !ok {
				rec.Log("Inconclusive", "why", "writer did not reach wr.Write after Writer() returned")
				return
			}
			s.flen = fl
			r.wcat = append(r.wcat, r.sent[s.id].b...) // encode order
			rec.Log("WsOp", "a", "acq", "tag", g, "ret", "ok")
		case "enc":
			rec.Log("WsOp", "a", "enc", "tag", g, "ret", "ok")
		case "emit":
			s := gs[g]
			if s == nil || s.hd == nil {
				rec.Log("Inconclusive", "why", "emit without start")
				return
			}
			s.hd.emit <- struct{}{}
			if _, ok := wait(s.hd.atClose); !ok {
				rec.Log("Inconclusive", "why", "writer did not reach wr.Close")
				return
			}
			rec.Log("WsOp", "a", "emit", "tag", g, "ret", "ok")
		case "rel":
			s := gs[g]
			if s == nil || s.hd == nil {
				rec.Log("Inconclusive", "why", "rel without start")
				return
			}
			f0, _, _ := r.wireState()
			s.hd.rel <- struct{}{}
			var res [2]string
			select {
			case res = <-s.done:
			case <-time.After(callTimeout):
				res = [2]string{"timeout", ""}
			}
			if res[0] == "timeout" {
				rec.Log("Inconclusive", "why", "watchdog: Write did not return after Close was released")
				return
			}
			r.afterWrite("rel", g, s.id, res[0], res[1], f0, 1)
			inFlight++
			gs[g] = nil
		default:
			rec.Log("Inconclusive", "why", "unknown op "+st.A)
			return
		}
	}
}

// race: `writers` goroutines write `per` tagged messages each without any scripted order; the
// reader reads all of them.  The wire order is observed from the connection; events are logged
// afterwards: the writes in wire order, then the reads in read order, then a final check.
func (r *runner) race(writers, per int, lens []int) {
	rec := r.rec
	if len(lens) == 0 {
		lens = []int{64}
	}
	total := writers * per
	type wres struct{ ret, detail string }
	results := make([][]wres, writers+1)
	msgs := map[[2]int][]byte{}
	for g := 1; g <= writers; g++ {
		for q := 1; q <= per; q++ {
			n := lens[((g-1)*per+q-1)%len(lens)]
			if n < 8 {
				n = 8
			}
			msgs[[2]int{g, q}] = msgBytes(r.seed, (g-1)*per+q, g, q, n, r.content)
		}
	}
	var wg sync.WaitGroup
	startC := make(chan struct{})
	for g := 1; g <= writers; g++ {
		wg.Add(1)
		go func(g int) {
			defer wg.Done()
			<-startC
			for q := 1; q <= per; q++ {
				ret, detail := safely(func() error { return r.a.Write(msgs[[2]int{g, q}]) })
				results[g] = append(results[g], wres{ret, detail})
				if ret != "ok" {
					return
				}
			}
		}(g)
	}
	type rres struct {
		ret, detail  string
		res          []byte
		rw           []int
		rx, consumed int
	}
	reads := []rres{}
	close(startC)
	// all writers returned and the reader has consumed every byte, yet Read does not return: the
	// remaining reads can never complete; close the connection after a grace period (-> inconclusive)
	stuck := make(chan struct{})
	readsDone := make(chan struct{})
	var once sync.Once
	endReads := func() { once.Do(func() { close(readsDone) }) }
	defer endReads()
	go func() {
		wg.Wait()
		idle := 0
		for idle < 400 {
			select {
			case <-readsDone:
				return
			case <-time.After(50 * time.Millisecond):
			}
			_, wire, consumed := r.wireState()
			if wire == consumed {
				idle++
			} else {
				idle = 0
			}
		}
		close(stuck)
		safely(r.b.Close)
	}()
	for i := 0; i < total; i++ {
		var res []byte
		if r.ab != nil {
			r.ab.beginRead()
		}
		ret, detail := safely(func() error {
			var err error
			res, err = r.b.Read()
			return err
		})
		x := rres{ret: ret, detail: detail, res: res}
		if ret == "ok" {
			r.rcat = append(r.rcat, res...)
			x.rw = r.readerWindow()
			_, _, x.consumed = r.wireState()
			x.rx = int(r.b.RxBytesCounterValue())
		}
		select {
		case <-stuck:
			ret = "timeout"
		default:
		}
		if ret == "timeout" {
			rec.Log("Inconclusive", "why", "watchdog: Read did not return although every byte written was consumed")
			return
		}
		reads = append(reads, x)
		if ret != "ok" {
			break
		}
	}
	endReads()
	wdone := make(chan struct{})
	go func() { wg.Wait(); close(wdone) }()
	select {
	case <-wdone:
	case <-time.After(callTimeout):
		rec.Log("Inconclusive", "why", "writers did not finish")
		return
	}
	for g := 1; g <= writers; g++ {
		for _, w := range results[g] {
			if w.ret == "timeout" {
				rec.Log("Inconclusive", "why", "watchdog: Write did not return")
				return
			}
		}
	}
	// writes in wire order, identified by the independent decoder
	nf, wire, _ := r.wireState()
	seen := map[[2]int]bool{}
	for i := 0; i < nf; i++ {
		flen, plain, ok, aligned, db := r.frameInfo(i)
		g, q, n, indepOK := 1, 0, 0, 0
		if ok && len(db) > 0 && len(plain) > len(db) && bytes.HasPrefix(plain, db) {
			if tg, tq, _, tok := tagOf(plain[len(db):]); tok && bytes.Equal(plain[len(db):], msgs[[2]int{tg, tq}]) && !seen[[2]int{tg, tq}] && tg >= 1 && tg <= writers {
				g, q, n, indepOK = tg, tq, len(plain)-len(db), 2
				seen[[2]int{tg, tq}] = true
				plain = plain[len(db):]
			}
		}
		if ok && indepOK == 0 {
			if tg, tq, _, tok := tagOf(plain); tok && bytes.Equal(plain, msgs[[2]int{tg, tq}]) && !seen[[2]int{tg, tq}] && tg >= 1 && tg <= writers {
				g, q, n, indepOK = tg, tq, len(plain), 1
				seen[[2]int{tg, tq}] = true
			}
		}
		r.nsent++
		r.sent[r.nsent] = &sentMsg{g: g, q: q, b: plain}
		if indepOK != 0 {
			r.wcat = append(r.wcat, plain...)
		}
		ret := "ok"
		if indepOK != 0 && (len(results[g]) < q || results[g][q-1].ret != "ok") {
			ret = "error"
		}
		rec.Log("WsOp", "a", "write", "tag", g, "seq", q, "n", n, "ret", ret, "detail", "", "frames", 1, "flen", flen,
			"tx", 0, "wire", 0, "ww", []int{0, 1, 0}, "indep", indepOK, "aligned", b2i(aligned), "chk", 0)
	}
	for _, x := range reads {
		rdm := -1
		if x.ret == "ok" {
			rdm = r.matchRead(x.res)
		}
		rw := x.rw
		if rw == nil {
			rw = []int{0, 0, 0}
		}
		rec.Log("WsOp", "a", "read", "ret", x.ret, "detail", tail(x.detail), "rdm", rdm, "rdlen", len(x.res),
			"rx", x.rx, "rwire", x.consumed, "rw", rw)
	}
	nfail := 0
	for g := 1; g <= writers; g++ {
		for _, w := range results[g] {
			if w.ret != "ok" {
				nfail++
			}
		}
		nfail += per - len(results[g])
	}
	ww, rw := r.writerWindow(), r.readerWindow()
	_, _, consumed := r.wireState()
	rec.Log("WsOp", "a", "final", "ret", "ok", "nwrites", total, "nfail", nfail, "frames", nf, "tx", int(r.a.TxBytesCounterValue()), "wire", wire,
		"rx", int(r.b.RxBytesCounterValue()), "rwire", consumed, "ww", ww, "rw", rw)
}
