package wswindow

import (
	"context"
	"encoding/binary"
	"errors"
	"io"
	"net"
	"runtime"
	"sync"
	"time"

	quicgo "github.com/quic-go/quic-go"
)

// pipe is one unidirectional QUIC stream in memory: a plain byte pipe without any locking
// between writers (bytes land in Write-call order), unbounded, capturing everything.
type pipe struct {
	mu     sync.Mutex
	cond   *sync.Cond
	all    []byte // the whole stream so far
	rd     int    // read offset
	starts []int  // stream offset at which every Write call started
	closed bool
	rchunk int
}

func newPipe(rchunk int) *pipe {
	p := &pipe{rchunk: rchunk}
	p.cond = sync.NewCond(&p.mu)
	return p
}

func (p *pipe) write(b []byte) (int, error) {
	p.mu.Lock()
	defer p.mu.Unlock()
	if p.closed {
		return 0, &quicgo.ApplicationError{ErrorCode: 0}
	}
	p.starts = append(p.starts, len(p.all))
	p.all = append(p.all, b...)
	p.cond.Broadcast()
	return len(b), nil
}

func (p *pipe) read(b []byte) (int, error) {
	p.mu.Lock()
	defer p.mu.Unlock()
	for p.rd == len(p.all) {
		if p.closed {
			return 0, &quicgo.ApplicationError{ErrorCode: 0}
		}
		p.cond.Wait()
	}
	n := len(p.all) - p.rd
	if n > len(b) {
		n = len(b)
	}
	if p.rchunk > 0 && n > p.rchunk {
		n = p.rchunk
	}
	copy(b, p.all[p.rd:p.rd+n])
	p.rd += n
	return n, nil
}

func (p *pipe) close() {
	p.mu.Lock()
	p.closed = true
	p.cond.Broadcast()
	p.mu.Unlock()
}

func (p *pipe) snapshot() (total, consumed int) {
	p.mu.Lock()
	defer p.mu.Unlock()
	return len(p.all), p.rd
}

// sframe is one length-prefixed frame found by the independent parser of the byte stream.
type sframe struct {
	off     int
	payload []byte
	aligned bool // the prefix and the payload are exactly one Write call each, adjacent
}

// parse splits the captured stream by the documented framing: 4-byte big-endian length, payload.
func (p *pipe) parse() []sframe {
	p.mu.Lock()
	defer p.mu.Unlock()
	isStart := map[int]int{}
	for _, s := range p.starts {
		isStart[s]++
	}
	out := []sframe{}
	off := 0
	for off+4 <= len(p.all) {
		n := int(binary.BigEndian.Uint32(p.all[off : off+4]))
		if off+4+n > len(p.all) {
			break
		}
		al := isStart[off] >= 1 && isStart[off+4] >= 1
		for x := off + 1; x < off+4+n && al; x++ {
			if x != off+4 && isStart[x] > 0 {
				al = false
			}
		}
		out = append(out, sframe{off: off, payload: p.all[off+4 : off+4+n], aligned: al})
		off += 4 + n
	}
	return out
}

type qsend struct{ p *pipe }

func (s *qsend) StreamID() quicgo.StreamID { return 2 }
func (s *qsend) Write(b []byte) (int, error) {
	n, err := s.p.write(b)
	runtime.Gosched() // invite other writers in between the chunks of one message
	return n, err
}
func (s *qsend) Close() error                       { return nil }
func (s *qsend) CancelWrite(quicgo.StreamErrorCode) {}
func (s *qsend) Context() context.Context           { return context.Background() }
func (s *qsend) SetWriteDeadline(time.Time) error   { return nil }

type qrecv struct{ p *pipe }

func (s *qrecv) StreamID() quicgo.StreamID         { return 3 }
func (s *qrecv) Read(b []byte) (int, error)        { return s.p.read(b) }
func (s *qrecv) CancelRead(quicgo.StreamErrorCode) {}
func (s *qrecv) SetReadDeadline(time.Time) error   { return nil }

// qconn is an in-memory quic.Connection offering exactly what transport/quic uses: one
// outgoing and one incoming unidirectional stream, and a lossy datagram lane in each direction (a datagram is dropped when 4096 are
// waiting; nothing is reordered).
type qconn struct {
	out, in     *pipe
	ctx         context.Context
	cancel      context.CancelFunc
	accepted    chan struct{}
	dgOut, dgIn chan []byte
}

var _ quicgo.Connection = (*qconn)(nil)
var _ io.Reader = (*qrecv)(nil)

func newQPair(rchunk int) (*qconn, *qconn) {
	ab, ba := newPipe(rchunk), newPipe(rchunk)
	dab, dba := make(chan []byte, 4096), make(chan []byte, 4096)
	mk := func(out, in *pipe, dgOut, dgIn chan []byte) *qconn {
		ctx, cancel := context.WithCancel(context.Background())
		c := &qconn{out: out, in: in, ctx: ctx, cancel: cancel, accepted: make(chan struct{}, 1), dgOut: dgOut, dgIn: dgIn}
		c.accepted <- struct{}{}
		return c
	}
	return mk(ab, ba, dab, dba), mk(ba, ab, dba, dab)
}

var errNotSupported = errors.New("qfake: not supported")

func (c *qconn) AcceptStream(ctx context.Context) (quicgo.Stream, error) {
	select {
	case <-ctx.Done():
		return nil, ctx.Err()
	case <-c.ctx.Done():
		return nil, &quicgo.ApplicationError{ErrorCode: 0}
	}
}

func (c *qconn) AcceptUniStream(ctx context.Context) (quicgo.ReceiveStream, error) {
	select {
	case <-c.accepted:
		return &qrecv{p: c.in}, nil
	case <-ctx.Done():
		return nil, ctx.Err()
	case <-c.ctx.Done():
		return nil, &quicgo.ApplicationError{ErrorCode: 0}
	}
}
func (c *qconn) OpenStream() (quicgo.Stream, error)                    { return nil, errNotSupported }
func (c *qconn) OpenStreamSync(context.Context) (quicgo.Stream, error) { return nil, errNotSupported }
func (c *qconn) OpenUniStream() (quicgo.SendStream, error)             { return &qsend{p: c.out}, nil }
func (c *qconn) OpenUniStreamSync(context.Context) (quicgo.SendStream, error) {
	return &qsend{p: c.out}, nil
}
func (c *qconn) LocalAddr() net.Addr  { return &net.UDPAddr{IP: net.IPv4(127, 0, 0, 1), Port: 1} }
func (c *qconn) RemoteAddr() net.Addr { return &net.UDPAddr{IP: net.IPv4(127, 0, 0, 1), Port: 2} }
func (c *qconn) CloseWithError(quicgo.ApplicationErrorCode, string) error {
	c.cancel()
	c.out.close()
	c.in.close()
	return nil
}
func (c *qconn) Context() context.Context                { return c.ctx }
func (c *qconn) ConnectionState() quicgo.ConnectionState { return quicgo.ConnectionState{} }
func (c *qconn) SendDatagram(p []byte) error {
	select {
	case c.dgOut <- append([]byte(nil), p...):
	default:
	}
	return nil
}
func (c *qconn) ReceiveDatagram(ctx context.Context) ([]byte, error) {
	select {
	case p := <-c.dgIn:
		return p, nil
	case <-ctx.Done():
		return nil, ctx.Err()
	case <-c.ctx.Done():
		return nil, &quicgo.ApplicationError{ErrorCode: 0}
	}
}
