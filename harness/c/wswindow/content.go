package wswindow

import (
	"bytes"
	"compress/flate"
	"encoding/binary"
	"errors"
	"hash/crc32"
	"io"
)

// message content: an 8-byte tag (magic, writer g, per-writer number q, global id k) followed by
// a body.  "rep": a 61-byte phrase that depends on the scenario seed only, so that later
// messages are compressed with back-references into the dictionary built from earlier
// ones; "rnd": pseudo-random (incompressible, stored blocks); "mix": 512-byte blocks of both.
func msgBytes(seed, k, g, q, n int, kind string) []byte {
	b := make([]byte, n)
	var tag [8]byte
	tag[0], tag[1] = 0xC1, 0x3D
	tag[2] = byte(g)
	binary.BigEndian.PutUint16(tag[3:5], uint16(q))
	binary.BigEndian.PutUint16(tag[5:7], uint16(k))
	tag[7] = byte(seed)
	var phrase [61]byte
	x := uint64(seed)*0x9E3779B97F4A7C15 + 12345
	for i := range phrase {
		x ^= x << 13
		x ^= x >> 7
		x ^= x << 17
		phrase[i] = byte('a' + (x>>11)%26)
	}
	y := uint64(seed)*1000003 + uint64(k)*7919 + 1
	rnd := func() byte {
		y ^= y << 13
		y ^= y >> 7
		y ^= y << 17
		return byte(y >> 23)
	}
	for i := 0; i < n; i++ {
		switch {
		case i < 8:
			b[i] = tag[i]
		case kind == "rnd":
			b[i] = rnd()
		case kind == "mix" && (i/512)%2 == 1:
			b[i] = rnd()
		default:
			b[i] = phrase[i%61]
			if i%1021 == 0 {
				b[i] = byte(k)
			}
		}
	}
	return b
}

// tagOf decodes the (g, q, k) tag of a message (ok=false for messages shorter than the tag).
func tagOf(b []byte) (g, q, k int, ok bool) {
	if len(b) < 8 || b[0] != 0xC1 || b[1] != 0x3D {
		return 0, 0, 0, false
	}
	return int(b[2]), int(binary.BigEndian.Uint16(b[3:5])), int(binary.BigEndian.Uint16(b[5:7])), true
}

func crc(b []byte) int { return int(crc32.ChecksumIEEE(b) & 0x3fffffff) }

// indep is the independent implementation of the documented framing: raw DEFLATE (RFC 1951)
// per message; per-message mode without preset dictionary; context takeover with the last
// min(total, 2^windowBits) bytes of the concatenated plaintext as preset dictionary; level 0 or
// no compression: the frame is the message.  Its dictionary is derived from its own output.
type indep struct {
	mode string // effective mode: off | pm | ct
	w    int64
	dict []byte
}

func newIndep(mode string, level, bits int) *indep {
	if level == 0 {
		mode = "off"
	}
	return &indep{mode: mode, w: int64(1) << uint(bits)}
}

func (d *indep) decode(frame []byte) ([]byte, error) {
	if d.mode == "off" {
		return append([]byte(nil), frame...), nil
	}
	src := bytes.NewReader(frame) // an io.ByteReader: flate reads exactly the stream
	var rd io.ReadCloser
	if d.mode == "ct" {
		rd = flate.NewReaderDict(src, d.dict)
	} else {
		rd = flate.NewReader(src)
	}
	out, err := io.ReadAll(rd)
	if err != nil {
		return nil, err
	}
	if err := rd.Close(); err != nil {
		return nil, err
	}
	if src.Len() != 0 {
		return nil, errors.New("trailing bytes after the DEFLATE stream")
	}
	if d.mode == "ct" {
		d.dict = append(d.dict, out...)
		if int64(len(d.dict)) > d.w {
			d.dict = append([]byte(nil), d.dict[int64(len(d.dict))-d.w:]...)
		}
	}
	return out, nil
}

// suffixOf reports whether win equals the last len(win) bytes of cat.
func suffixOf(win, cat []byte) bool {
	if len(win) > len(cat) {
		return false
	}
	return bytes.Equal(win, cat[len(cat)-len(win):])
}

func b2i(b bool) int {
	if b {
		return 1
	}
	return 0
}
