package wswindow

import (
	"context"
	"io"
	"net/http"
	"net/http/httptest"

	"github.com/aptpod/iscp-go/transport/websocket"
	cws "github.com/coder/websocket"
	gws "github.com/gorilla/websocket"

	"verifharness/h"
)

// Kind "wsreal": the real websocket.Transport over one of the three real backends (coder - the default -, gorilla, nhooyr), dialled
// over loopback to an echo server. Two echo servers: "frag" (coder's streaming API: the echo of a message travels as data frames plus
// an empty final frame, like every message written through Conn.Writer of coder / nhooyr) and "single" (gorilla's WriteMessage: one
// frame per message). Whatever the transport writes comes back byte for byte, so the one transport is writer and reader of the model.
func init() {
	h.Kinds["wsreal"] = runReal
}

// RealDial is filled in by the command that links exactly one backend package (the backend packages register themselves as THE dial
// function of the websocket package when imported, so one binary can hold only one of them): cmd/vhwsreal-coder, -gorilla, -nhooyr.
var RealDial = map[string]func(url string) (websocket.Conn, error){}

func echoServer(kind string) *httptest.Server {
	return httptest.NewServer(http.HandlerFunc(func(w http.ResponseWriter, r *http.Request) {
		if kind == "single" {
			up := gws.Upgrader{CheckOrigin: func(*http.Request) bool { return true }}
			c, err := up.Upgrade(w, r, nil)
			if err != nil {
				return
			}
			defer c.Close()
			for {
				mt, b, err := c.ReadMessage()
				if err != nil {
					return
				}
				if err := c.WriteMessage(mt, b); err != nil {
					return
				}
			}
		}
		c, err := cws.Accept(w, r, &cws.AcceptOptions{InsecureSkipVerify: true, CompressionMode: cws.CompressionDisabled})
		if err != nil {
			return
		}
		c.SetReadLimit(-1)
		defer c.CloseNow()
		for {
			mt, rd, err := c.Reader(context.Background())
			if err != nil {
				return
			}
			wr, err := c.Writer(context.Background(), mt)
			if err != nil {
				return
			}
			if _, err := io.Copy(wr, rd); err != nil {
				return
			}
			if err := wr.Close(); err != nil {
				return
			}
		}
	}))
}

func runReal(sc *h.Scenario) *h.Rec {
	rec := h.NewRec(sc.ID)
	p := sc.P
	mode := pstr(p, "mode", "off")
	level, bits := pint(p, "level", 0), pint(p, "bits", 0)
	backend, server := pstr(p, "backend", "coder"), pstr(p, "server", "frag")
	rec.Log("Reset", "kind", sc.Kind, "p", h.Ev{"kind": "real", "mode": mode, "level": level, "bits": bits, "backend": backend, "server": server,
		"content": pstr(p, "content", "rep")})
	defer rec.Log("End")
	var srv *httptest.Server
	if ret, detail := safely(func() error { srv = echoServer(server); return nil }); ret != "ok" {
		rec.Log("Inconclusive", "why", "no loopback listener: "+tail(detail))
		return rec
	}
	defer srv.Close()
	dial := RealDial[backend]
	if dial == nil {
		rec.Log("Inconclusive", "why", "backend "+backend+" is not linked into this harness command")
		return rec
	}
	conn, err := dial(srv.URL)
	if err != nil {
		rec.Log("Inconclusive", "why", "dial: "+tail(err.Error()))
		return rec
	}
	t := websocket.New(websocket.Config{Conn: conn, NegotiationParams: websocket.NegotiationParams{NegotiationParams: negotiated(mode, level, bits)}})
	defer safely(t.Close)
	r := &runner{rec: rec, seed: pint(p, "seed", 1), content: pstr(p, "content", "rep"), sent: map[int]*sentMsg{}, nq: map[int]int{}}
	inFlight := 0
	for _, st := range sc.Steps {
		switch st.A {
		case "write":
			id := r.newMsg(1, st.N)
			ret, detail := safely(func() error { return t.Write(r.sent[id].b) })
			if ret == "timeout" {
				rec.Log("Inconclusive", "why", "watchdog: Write did not return")
				return rec
			}
			rec.Log("RealOp", "a", "write", "n", st.N, "ret", ret, "detail", tail(detail))
			inFlight++
		case "read":
			if inFlight == 0 {
				rec.Log("Inconclusive", "why", "read scripted with nothing in flight")
				return rec
			}
			var res []byte
			ret, detail := safely(func() error {
				var err error
				res, err = t.Read()
				return err
			})
			if ret == "timeout" {
				rec.Log("Inconclusive", "why", "watchdog: Read did not return")
				return rec
			}
			rdm := -1
			if ret == "ok" {
				rdm = r.matchRead(res)
			}
			rec.Log("RealOp", "a", "read", "ret", ret, "detail", tail(detail), "rdm", rdm, "rdlen", len(res))
			inFlight--
		}
	}
	rec.Log("RealOp", "a", "final", "tx", int(t.TxBytesCounterValue()), "rx", int(t.RxBytesCounterValue()))
	return rec
}
