package wswindow

import (
	"bytes"
	"sync"
	"sync/atomic"
	"time"

	tquic "github.com/aptpod/iscp-go/transport/quic"

	"verifharness/h"
)

// Kind "quicmix": reliable writers (Transport.Write, serialised by the transport's send lock) run concurrently with datagram writers
// (WriteUnreliable / AsUnreliable().Write, no lock) on one real quic.Transport over the in-memory connection. Every reliable message
// must arrive byte for byte, in per-writer order; every datagram message that arrives must be one that was written.
func init() {
	h.Kinds["quicmix"] = runMix
}

func runMix(sc *h.Scenario) *h.Rec {
	rec := h.NewRec(sc.ID)
	p := sc.P
	mode, level := pstr(p, "mode", "pm"), pint(p, "level", 6)
	writers, per, dwriters := pint(p, "writers", 1), pint(p, "per", 30), pint(p, "dwriters", 1)
	lens := pints(p, "lens")
	if len(lens) == 0 {
		lens = []int{70000}
	}
	seed, content := pint(p, "seed", 1), pstr(p, "content", "mix")
	rec.Log("Reset", "kind", sc.Kind, "p", h.Ev{"kind": "quicmix", "mode": mode, "level": level, "bits": 0, "server": "", "writers": writers, "per": per, "dwriters": dwriters})
	defer rec.Log("End")
	ca, cb := newQPair(pint(p, "rchunk", 0))
	np := negotiated(mode, level, 0)
	ta, err := tquic.New(tquic.Config{Connection: ca, NegotiationParams: tquic.NegotiationParams{NegotiationParams: np}})
	if err != nil {
		rec.Log("Inconclusive", "why", "quic.New: "+err.Error())
		return rec
	}
	tb, err := tquic.New(tquic.Config{Connection: cb, NegotiationParams: tquic.NegotiationParams{NegotiationParams: np}})
	if err != nil {
		rec.Log("Inconclusive", "why", "quic.New: "+err.Error())
		return rec
	}
	defer safely(ta.Close)
	defer safely(tb.Close)
	msgs := map[[2]int][]byte{}
	for g := 1; g <= writers; g++ {
		for q := 1; q <= per; q++ {
			msgs[[2]int{g, q}] = msgBytes(seed, (g-1)*per+q, g, q, lens[((g-1)*per+q-1)%len(lens)], content)
		}
	}
	dgs := [][]byte{}
	for k := 0; k < 16; k++ {
		dgs = append(dgs, msgBytes(seed+1, 1000+k, 200, k+1, []int{90, 700, 2500, 40}[k%4], content))
	}
	var wg sync.WaitGroup
	var relDone atomic.Bool
	var nfail, npanic, dsent, dfail int64
	for g := 1; g <= writers; g++ {
		wg.Add(1)
		go func(g int) {
			defer wg.Done()
			for q := 1; q <= per; q++ {
				ret, _ := safely(func() error { return ta.Write(msgs[[2]int{g, q}]) })
				if ret == "panic" {
					atomic.AddInt64(&npanic, 1)
				}
				if ret != "ok" {
					atomic.AddInt64(&nfail, 1)
					return
				}
			}
		}(g)
	}
	var dwg sync.WaitGroup
	ua, _ := ta.AsUnreliable()
	for d := 0; d < dwriters; d++ {
		dwg.Add(1)
		go func(d int) {
			defer dwg.Done()
			for k := 0; !relDone.Load() && k < 200000; k++ {
				m := dgs[(k+d)%len(dgs)]
				var ret string
				if d%2 == 0 || ua == nil {
					ret, _ = safely(func() error { return ta.WriteUnreliable(m) })
				} else {
					ret, _ = safely(func() error { return ua.Write(m) })
				}
				if ret == "panic" {
					atomic.AddInt64(&npanic, 1)
				}
				if ret != "ok" {
					atomic.AddInt64(&dfail, 1)
					return
				}
				atomic.AddInt64(&dsent, 1)
			}
		}(d)
	}
	// datagram reader of the peer
	var drecv, dbad int64
	ub, _ := tb.AsUnreliable()
	dstop := make(chan struct{})
	if ub != nil {
		go func() {
			for {
				m, err := ub.Read()
				if err != nil {
					return
				}
				select {
				case <-dstop:
					return
				default:
				}
				ok := false
				for _, x := range dgs {
					if bytes.Equal(x, m) {
						ok = true
						break
					}
				}
				atomic.AddInt64(&drecv, 1)
				if !ok {
					atomic.AddInt64(&dbad, 1)
				}
			}
		}()
	}
	// reliable reader of the peer
	total := writers * per
	next := map[int]int{}
	nread, mismatch, readErr := 0, 0, ""
	rdone := make(chan struct{})
	go func() {
		defer close(rdone)
		for i := 0; i < total; i++ {
			m, err := tb.Read()
			if err != nil {
				readErr = tail(err.Error())
				return
			}
			nread++
			g, q, _, ok := tagOf(m)
			if !ok || !bytes.Equal(m, msgs[[2]int{g, q}]) || q != next[g]+1 {
				mismatch++
				continue
			}
			next[g] = q
		}
	}()
	wdone := make(chan struct{})
	go func() { wg.Wait(); close(wdone) }()
	timedOut := false
	select {
	case <-wdone:
	case <-time.After(callTimeout):
		timedOut = true
	}
	relDone.Store(true)
	dwg.Wait()
	if !timedOut {
		select {
		case <-rdone:
		case <-time.After(5 * time.Second):
			// the writers are done: whatever has not arrived by now never will (a failed writer, a reader that gave up)
			safely(tb.Close)
			<-rdone
		}
	}
	close(dstop)
	if timedOut {
		rec.Log("Inconclusive", "why", "watchdog: reliable writers did not finish")
		return rec
	}
	rec.Log("MixOp", "a", "final", "total", total, "nread", nread, "mismatch", mismatch, "readErr", readErr,
		"nfail", int(atomic.LoadInt64(&nfail)), "npanic", int(atomic.LoadInt64(&npanic)),
		"dsent", int(atomic.LoadInt64(&dsent)), "dfail", int(atomic.LoadInt64(&dfail)),
		"drecv", int(atomic.LoadInt64(&drecv)), "dbad", int(atomic.LoadInt64(&dbad)))
	return rec
}
