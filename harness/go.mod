module verifharness

go 1.23.6

require (
	github.com/aptpod/iscp-go v0.0.0
	github.com/coder/websocket v1.8.12
	github.com/google/uuid v1.3.0
	github.com/gorilla/websocket v1.4.2
	github.com/quic-go/quic-go v0.50.0
	github.com/quic-go/webtransport-go v0.8.1-0.20241018022711-4ac2c9250e66
)

require (
	github.com/aptpod/iscp-proto v0.0.0-20230808235245-fada26057efa // indirect
	github.com/gogo/protobuf v1.3.2 // indirect
	github.com/quic-go/qpack v0.5.1 // indirect
	golang.org/x/crypto v0.35.0 // indirect
	golang.org/x/exp v0.0.0-20250218142911-aa4b98e5adaa // indirect
	golang.org/x/net v0.35.0 // indirect
	golang.org/x/sync v0.11.0 // indirect
	golang.org/x/sys v0.30.0 // indirect
	golang.org/x/text v0.22.0 // indirect
	nhooyr.io/websocket v1.8.10 // indirect
)

replace github.com/aptpod/iscp-go => /repo
