// vhreconnect runs the C18 scenarios (reconnectable transport) -- see h.Main for the CLI.
package main

import (
	_ "verifharness/c/reconnect"
	"verifharness/h"
)

func main() { h.Main() }
