// vhwsreal-nhooyr runs the C13 scenarios of kind "wsreal" with the real nhooyr WebSocket backend linked in (one backend per binary:
// importing a backend package registers it as the dial function of the websocket package).
package main

import (
	"github.com/aptpod/iscp-go/transport/websocket"
	"github.com/aptpod/iscp-go/transport/websocket/nhooyr"

	"verifharness/c/wswindow"
	"verifharness/h"
)

func main() {
	wswindow.RealDial["nhooyr"] = func(url string) (websocket.Conn, error) { return nhooyr.Dial(url, nil) }
	h.Main()
}
