// vhwsreal-coder runs the C13 scenarios of kind "wsreal" with the real coder WebSocket backend linked in (one backend per binary:
// importing a backend package registers it as the dial function of the websocket package).
package main

import (
	"github.com/aptpod/iscp-go/transport/websocket"
	"github.com/aptpod/iscp-go/transport/websocket/coder"

	"verifharness/c/wswindow"
	"verifharness/h"
)

func main() {
	wswindow.RealDial["coder"] = func(url string) (websocket.Conn, error) { return coder.Dial(url, nil) }
	h.Main()
}
