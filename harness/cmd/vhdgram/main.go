// vhdgram runs the transport-level C14 scenario scripts (datagram link over two real quic.Transport values)
// against the real library (see h.Main, c/dgram).
package main

import (
	_ "verifharness/c/dgram"
	"verifharness/h"
)

func main() { h.Main() }
