// vhreqreply runs request/response correlation scenarios (C06) against wire.ClientConn (see h.Main).
package main

import (
	_ "verifharness/c/reqreply"
	"verifharness/h"
)

func main() { h.Main() }
