// vhmulti runs C19 (transport/multi) scenario scripts against the real library (see h.Main, c/multi).
package main

import (
	_ "verifharness/c/multi"
	"verifharness/h"
)

func main() { h.Main() }
