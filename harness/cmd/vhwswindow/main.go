// vhwswindow runs the C13 scenario scripts (kinds "wswindow", "quicstream") against the real
// transports and writes NDJSON traces (see h.Main).
package main

import (
	_ "verifharness/c/wswindow"
	"verifharness/h"
)

func main() { h.Main() }
