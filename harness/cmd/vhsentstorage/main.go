// vhsentstorage runs sent-storage scenarios (C07a) against the real stores (see h.Main).
package main

import (
	_ "verifharness/c/sentstorage"
	"verifharness/h"
)

func main() { h.Main() }
