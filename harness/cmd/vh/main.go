// vh runs scenario scripts against the real library and writes NDJSON traces (see h.Main).
package main

import "verifharness/h"

func main() { h.Main() }
