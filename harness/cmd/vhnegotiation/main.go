// vhnegotiation runs the negotiation component scenarios (C17) against the real library (see h.Main).
package main

import (
	_ "verifharness/c/negotiation"
	"verifharness/h"
)

func main() { h.Main() }
